"""Zygote + fork-per-run executor.

FRAME's interesting state is process-global (rectangle tolerances, the ROBDD
store, the legaliser's registers).  Every simulated run, every reference run and
every shrink candidate therefore executes in a freshly forked child of a process
that has imported FRAME but executed no FRAME operation (the zygote).

Two levels: the caller forks W worker-zygotes; each worker pulls task indices
from a shared counter and forks one grandchild per task.  The result of task i
is a function of task i alone, never of W or of which worker ran it.

A grandchild that dies, hangs or cannot pickle its answer yields a
("harness-error", message) result - never a pass and never a violation.
"""
import faulthandler
import gc
import multiprocessing
import os
import pickle
import select
import signal
import struct
import sys
import time
import traceback

_CTX = multiprocessing.get_context("fork")
DEBUG = bool(os.environ.get("VERIF_DEBUG"))


def default_workers() -> int:
    w = os.environ.get("VERIF_WORKERS")
    if w:
        return max(1, int(w))
    return max(1, min(16, os.cpu_count() or 1))


def _write_all(fd: int, data: bytes) -> None:
    view = memoryview(data)
    while len(view):
        n = os.write(fd, view)
        view = view[n:]


def _read_exact(fd: int, n: int) -> bytes:
    chunks = []
    while n > 0:
        b = os.read(fd, min(n, 1 << 20))
        if not b:
            raise EOFError
        chunks.append(b)
        n -= len(b)
    return b"".join(chunks)


def _child_main(fn, task, wfd: int, timeout_s: float) -> None:
    """Runs in the grandchild.  Never returns."""
    code = 0
    try:
        if not DEBUG:
            dn = os.open(os.devnull, os.O_WRONLY)
            os.dup2(dn, 1)
            os.dup2(dn, 2)
        # hard wall limit inside the child: SIGALRM's default action kills the process, the
        # parent then sees EOF and reports a harness error.  (faulthandler's watchdog thread
        # must not be used here: children fork further children, and a forked copy of a
        # process with a watchdog thread deadlocks when it re-arms the watchdog.)
        signal.signal(signal.SIGALRM, signal.SIG_DFL)
        signal.alarm(max(1, int(timeout_s)))
        try:
            res = ("ok", fn(task))
        except BaseException as e:  # the engine itself failed: harness error
            res = ("harness-error", "exception in run function: %s\n%s" % (repr(e), traceback.format_exc()))
        try:
            data = pickle.dumps(res, protocol=4)
        except Exception as e:
            data = pickle.dumps(("harness-error", "result not picklable: %r" % (e,)), protocol=4)
        _write_all(wfd, struct.pack("<Q", len(data)) + data)
    except BaseException:
        code = 70
    finally:
        try:
            sys.stdout.flush()
            sys.stderr.flush()
        except Exception:
            pass
        os._exit(code)


def run_in_child(fn, task, timeout_s: float = 120.0):
    """Forks one child from the current process, runs fn(task) there.
    Returns ("ok", value) or ("harness-error", msg)."""
    rfd, wfd = os.pipe()
    pid = os.fork()
    if pid == 0:
        os.close(rfd)
        _child_main(fn, task, wfd, timeout_s + 5.0)
    os.close(wfd)
    deadline = time.monotonic() + timeout_s + 10.0
    buf = b""
    need = None
    result = None
    try:
        while True:
            left = deadline - time.monotonic()
            if left <= 0:
                result = ("harness-error", "child exceeded wall limit of %.0fs" % timeout_s)
                break
            r, _, _ = select.select([rfd], [], [], min(left, 1.0))
            if not r:
                continue
            b = os.read(rfd, 1 << 20)
            if not b:
                result = ("harness-error", "child closed pipe without answer (crashed)")
                break
            buf += b
            if need is None and len(buf) >= 8:
                need = struct.unpack("<Q", buf[:8])[0]
            if need is not None and len(buf) >= 8 + need:
                try:
                    result = pickle.loads(buf[8:8 + need])
                except Exception as e:
                    result = ("harness-error", "cannot unpickle child answer: %r" % (e,))
                break
    finally:
        os.close(rfd)
        try:
            if result is None or result[0] != "ok":
                os.kill(pid, signal.SIGKILL)
        except ProcessLookupError:
            pass
        try:
            _, status = os.waitpid(pid, 0)
            if result is not None and result[0] == "harness-error" and "crashed" in result[1]:
                result = ("harness-error", result[1] + " wait status=%d" % status)
        except ChildProcessError:
            pass
    return result


def _worker_main(fn, tasks, counter, out_fd: int, timeout_s: float) -> None:
    try:
        n = len(tasks)
        while True:
            with counter.get_lock():
                i = counter.value
                counter.value = i + 1
            if i >= n:
                break
            res = run_in_child(fn, tasks[i], timeout_s)
            data = pickle.dumps((i, res), protocol=4)
            _write_all(out_fd, struct.pack("<Q", len(data)) + data)
    except BaseException:
        try:
            msg = pickle.dumps((-1, ("harness-error", "worker failed: " + traceback.format_exc())), protocol=4)
            _write_all(out_fd, struct.pack("<Q", len(msg)) + msg)
        except BaseException:
            pass
        os._exit(71)
    os._exit(0)


def run_batch(fn, tasks, workers: int | None = None, timeout_s: float = 120.0, progress=None):
    """Runs fn(task) for every task, each in its own fresh child.
    Returns a list of ("ok", value) | ("harness-error", msg), indexed like tasks."""
    n = len(tasks)
    results = [None] * n
    if n == 0:
        return results
    workers = min(workers or default_workers(), n)
    gc.collect()
    try:
        gc.freeze()
    except Exception:
        pass
    sys.stdout.flush()
    sys.stderr.flush()
    counter = _CTX.Value("q", 0)
    procs = {}
    for _ in range(workers):
        rfd, wfd = os.pipe()
        pid = os.fork()
        if pid == 0:
            os.close(rfd)
            for other in procs.values():
                try:
                    os.close(other["fd"])
                except OSError:
                    pass
            _worker_main(fn, tasks, counter, wfd, timeout_s)
            os._exit(0)
        os.close(wfd)
        procs[rfd] = {"fd": rfd, "pid": pid, "buf": b""}
    done = 0
    worker_errors = []
    while procs:
        r, _, _ = select.select(list(procs.keys()), [], [], 5.0)
        for fd in r:
            p = procs[fd]
            b = os.read(fd, 1 << 20)
            if not b:
                os.close(fd)
                try:
                    _, status = os.waitpid(p["pid"], 0)
                    if status != 0:
                        worker_errors.append("worker %d exit status %d" % (p["pid"], status))
                except ChildProcessError:
                    pass
                del procs[fd]
                continue
            p["buf"] += b
            while len(p["buf"]) >= 8:
                need = struct.unpack("<Q", p["buf"][:8])[0]
                if len(p["buf"]) < 8 + need:
                    break
                i, res = pickle.loads(p["buf"][8:8 + need])
                p["buf"] = p["buf"][8 + need:]
                if i < 0:
                    worker_errors.append(res[1])
                else:
                    results[i] = res
                    done += 1
                    if progress is not None:
                        progress(done, n)
    try:
        gc.unfreeze()
    except Exception:
        pass
    for i in range(n):
        if results[i] is None:
            results[i] = ("harness-error", "no result (worker died): " + "; ".join(worker_errors)[:500])
    return results
