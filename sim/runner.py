"""Common driver: generate seeded cases, run each in a fresh forked child, check
determinism of the harness, classify / confirm / shrink violations, write replay
files and the evidence file, and exit with the contract's exit code.

Exit codes: 0 held (possibly with KNOWN-FINDING lines); 1 VIOLATION; 3 HARNESS-ERROR.
"""
import importlib
import json
import os
import subprocess
import sys
import time

VERIF = os.path.dirname(os.path.dirname(os.path.abspath(__file__)))
if VERIF not in sys.path:
    sys.path.insert(0, VERIF)

from sim import forkpool, rng as rngmod, shrink as shrinkmod  # noqa: E402
from sim.digest import digest  # noqa: E402

GUARD = "FRAME_VERIF_SIM"

ENGINES = {
    "C02": "engines.c02_c12_refine",
    "C12": "engines.c02_c12_refine",
    "C07": "engines.c07_sat",
    "C19": "engines.c19_documents",
    "C20": "engines.c20_history",
    "C14": "engines.c14_spectral",
    "C13": "engines.c13_force",
    "C10": "engines.c10_glbfloor",
}


def repo_root() -> str:
    return os.path.abspath(os.environ.get("FRAME_REPO", "/repo"))


def ensure_hashseed(default: str = "0") -> None:
    """The harness itself must not depend on hash randomisation: re-exec once
    with a fixed PYTHONHASHSEED (VERIF_HASHSEED overrides)."""
    want = os.environ.get("VERIF_HASHSEED", default)
    if os.environ.get("PYTHONHASHSEED") != want:
        env = dict(os.environ)
        env["PYTHONHASHSEED"] = want
        env[GUARD] = "1"
        os.execve(sys.executable, [sys.executable] + sys.argv, env)


def import_frame() -> None:
    root = repo_root()
    # the tree under test must win over an installed copy
    sys.path[:] = [p for p in sys.path if os.path.abspath(p or ".") != root]
    sys.path.insert(0, root)
    for name in list(sys.modules):
        if name == "frame" or name.startswith("frame.") or name == "tools" or name.startswith("tools."):
            del sys.modules[name]
    import frame  # noqa
    import tools  # noqa
    for mod in (frame, tools):
        f = os.path.abspath(mod.__file__)
        if not f.startswith(root + os.sep):
            raise RuntimeError("HARNESS-ERROR: %s imported from %s, not from %s" % (mod.__name__, f, root))


def tree_id() -> str:
    root = repo_root()
    try:
        head = subprocess.run(["git", "-C", root, "rev-parse", "--short", "HEAD"], capture_output=True,
                              text=True, timeout=20).stdout.strip()
        dirty = subprocess.run(["git", "-C", root, "status", "--porcelain", "--untracked-files=no"],
                               capture_output=True, text=True, timeout=20).stdout.strip()
        return head + ("+dirty" if dirty else "")
    except Exception:
        return "unknown"


def load_engine(prop: str):
    return importlib.import_module(ENGINES[prop])


def load_known(prop: str):
    path = os.path.join(VERIF, "known_findings.json")
    if not os.path.exists(path):
        return []
    with open(path) as f:
        data = json.load(f)
    return [e for e in data.get("findings", []) if e.get("property") == prop and e.get("status") == "known"]


def vclass(v: dict) -> tuple:
    """The class of a violation: property, clause and attribution key."""
    key = v.get("key") or {}
    return (v.get("property"), v.get("clause"), json.dumps(key, sort_keys=True))


def match_known(v: dict, known: list):
    key = dict(v.get("key") or {})
    key["clause"] = v.get("clause")
    for e in known:
        ek = e.get("key", {})
        if ek and all(key.get(k) == val for k, val in ek.items()):
            return e
    return None


def _run_case_entry(arg):
    modname, case = arg
    eng = importlib.import_module(modname)
    return eng.run_case(case)


WALL_RETRIES = {"count": 0}


def _wall_timeout(status, res) -> bool:
    # the run's own SIGALRM guard (wait status 14) or the parent's select deadline
    return status != "ok" and ("wall limit" in str(res) or "wait status=14" in str(res))


def run_cases(engine, cases, workers=None, timeout_s=None):
    """Runs every case in its own forked child.  A run that is killed by its wall-clock guard is executed once more, alone
    and with three times the limit, before it counts as a harness error: wall time is the one thing the simulator does
    not control (a loaded machine), and a run's outcome never depends on it."""
    timeout_s = timeout_s or getattr(engine, "RUN_TIMEOUT_S", 120.0)
    tasks = [(engine.__name__, c) for c in cases]
    results = forkpool.run_batch(_run_case_entry, tasks, workers=workers, timeout_s=timeout_s)
    for i, (status, res) in enumerate(results):
        if _wall_timeout(status, res):
            WALL_RETRIES["count"] += 1
            results[i] = forkpool.run_batch(_run_case_entry, [tasks[i]], workers=1, timeout_s=3 * timeout_s)[0]
    return results


def make_case(engine, prop: str, seed: int, index: int, tier: str) -> dict:
    r = rngmod.Rng(rngmod.derive(seed, engine.STREAM, index))
    case = engine.gen_case(r, index, tier)
    case["seed"] = seed
    case["run"] = index
    return case


def relevant(result: dict, prop: str):
    return [v for v in result.get("violations", []) if v.get("property") == prop]


def _own_scratch():
    """All scratch directories of this invocation live under one parent that is removed when the driver exits (children
    killed by their wall limit cannot clean up after themselves)."""
    import atexit
    import shutil
    import tempfile
    if os.environ.get("VERIF_SCRATCH") and os.path.isdir(os.environ["VERIF_SCRATCH"]):
        return
    base = "/dev/shm" if os.path.isdir("/dev/shm") else None
    # left-overs of invocations that were killed from outside (no atexit): anything older than six hours
    try:
        for name in os.listdir(base or tempfile.gettempdir()):
            if name.startswith("frame-verif-"):
                path = os.path.join(base or tempfile.gettempdir(), name)
                if time.time() - os.path.getmtime(path) > 6 * 3600:
                    shutil.rmtree(path, ignore_errors=True)
    except OSError:
        pass
    root = tempfile.mkdtemp(prefix="frame-verif-run-", dir=base)
    os.environ["VERIF_SCRATCH"] = root
    pid = os.getpid()
    atexit.register(lambda: os.getpid() == pid and shutil.rmtree(root, ignore_errors=True))


def check(prop: str, tier: str) -> int:
    _own_scratch()
    t0 = time.time()
    seed = rngmod.env_seed()
    engine = load_engine(prop)
    import_frame()
    engine.setup()
    cfg = engine.TIERS[tier]
    n_runs = int(os.environ.get("VERIF_RUNS", cfg["runs"]))
    wall_cap = float(os.environ.get("VERIF_WALL_S", cfg["wall_s"]))
    workers = forkpool.default_workers()
    print("seed=%d property=%s tier=%s runs=%d workers=%d tree=%s repo=%s hashseed=%s" % (
        seed, prop, tier, n_runs, workers, tree_id(), repo_root(), os.environ.get("PYTHONHASHSEED")), flush=True)

    known = load_known(prop)
    agg = engine.new_aggregate() if hasattr(engine, "new_aggregate") else {}
    stats = {"runs": 0, "steps": 0, "fault_free_runs": 0, "faulted_runs": 0, "harness_errors": 0,
             "faults_configured": {}, "faults_fired": {}, "probes": {}, "ops": {}}
    signatures = set()
    nontrivial_sigs = set()
    samples = []
    digests = {}
    world_digests = {}
    world_violations = []
    new_violations = []   # (case, violation)
    known_seen = {}
    harness_msgs = []
    batch = int(cfg.get("batch", 512))
    i = 0
    capped = False
    while i < n_runs:
        if time.time() - t0 > wall_cap:
            capped = True
            break
        idx = list(range(i, min(n_runs, i + batch)))
        cases = [make_case(engine, prop, seed, k, tier) for k in idx]
        results = run_cases(engine, cases, workers=workers)
        for k, case, (status, res) in zip(idx, cases, results):
            if status != "ok":
                stats["harness_errors"] += 1
                harness_msgs.append("run %d: %s" % (k, str(res)[:400]))
                continue
            stats["runs"] += 1
            stats["steps"] += res.get("steps", 0)
            fired = res.get("faults_fired", {})
            conf = res.get("faults_configured", {})
            for name, c in conf.items():
                stats["faults_configured"][name] = stats["faults_configured"].get(name, 0) + c
            for name, c in fired.items():
                stats["faults_fired"][name] = stats["faults_fired"].get(name, 0) + c
            if sum(fired.values()) > 0:
                stats["faulted_runs"] += 1
            else:
                stats["fault_free_runs"] += 1
            for name, c in res.get("probes", {}).items():
                stats["probes"][name] = stats["probes"].get(name, 0) + c
            for name, c in res.get("ops", {}).items():
                stats["ops"][name] = stats["ops"].get(name, 0) + c
            sig = res.get("signature", "")
            signatures.add(sig)
            if res.get("nontrivial"):
                nontrivial_sigs.add(sig)
                if len(samples) < 3 and res.get("sample") is not None:
                    samples.append(res["sample"])
            digests[k] = res.get("digest")
            if res.get("world_digest") is not None:
                world_digests[k] = res.get("world_digest")
            for v in relevant(res, prop):
                e = match_known(v, known)
                if e is not None:
                    ks = known_seen.setdefault(e["id"], {"entry": e, "count": 0, "first_run": k})
                    ks["count"] += 1
                else:
                    new_violations.append((case, v))
        i = idx[-1] + 1

    # ---- determinism self-test of the harness ---------------------------------
    det = {"rerun_same_process": 0, "rerun_fresh_interpreter": 0, "mismatches": 0}
    done_idx = sorted(digests)
    if done_idx:
        nsame = min(len(done_idx), int(cfg.get("det_same", 16)))
        step = max(1, len(done_idx) // nsame)
        pick = done_idx[::step][:nsame]
        cases = [make_case(engine, prop, seed, k, tier) for k in pick]
        w2 = max(1, workers // 3)
        results = run_cases(engine, cases, workers=w2)
        for k, (status, res) in zip(pick, results):
            det["rerun_same_process"] += 1
            if status != "ok" or res.get("digest") != digests[k]:
                det["mismatches"] += 1
                harness_msgs.append("determinism: run %d digest differs on re-execution (%s vs %s)" % (
                    k, digests[k], res.get("digest") if status == "ok" else res))
        nfresh = min(len(done_idx), int(cfg.get("det_fresh", 2)))
        if nfresh > 0 and not os.environ.get("VERIF_NO_FRESH"):
            pickf = done_idx[:: max(1, len(done_idx) // nfresh)][:nfresh]
            env = dict(os.environ)
            env["PYTHONHASHSEED"] = "4242"
            env["VERIF_HASHSEED"] = "4242"
            cmd = [sys.executable, os.path.join(VERIF, "sim", "cli.py"), "digests", prop, tier] + [str(k) for k in pickf]
            try:
                out = subprocess.run(cmd, env=env, capture_output=True, text=True, timeout=600)
                got = {}
                for line in out.stdout.splitlines():
                    if line.startswith("DIGEST "):
                        parts = line.split()
                        got[int(parts[1])] = parts[2]
                for k in pickf:
                    det["rerun_fresh_interpreter"] += 1
                    if got.get(k) != digests[k]:
                        det["mismatches"] += 1
                        harness_msgs.append("determinism: run %d digest differs in a fresh interpreter under "
                                            "PYTHONHASHSEED=4242 (%s vs %s) %s" % (k, digests[k], got.get(k),
                                                                                   out.stderr[-300:]))
            except Exception as e:  # pragma: no cover
                det["mismatches"] += 1
                harness_msgs.append("determinism: fresh interpreter run failed: %r" % (e,))

    # ---- other worlds: fresh interpreters under other PYTHONHASHSEED values (engines that assert determinism) ----
    worlds = {"hashseeds": [], "compared": 0, "mismatches": 0}
    if getattr(engine, "WORLD_HASHSEEDS", None) and world_digests and not os.environ.get("VERIF_NO_FRESH"):
        idxs = sorted(world_digests)
        nsample = max(2, int(len(idxs) * float(cfg.get("world_fraction", 0.1))))
        pickw = idxs[:: max(1, len(idxs) // nsample)][:nsample]
        for hs in engine.WORLD_HASHSEEDS:
            env = dict(os.environ)
            env["PYTHONHASHSEED"] = hs
            env["VERIF_HASHSEED"] = hs
            cmd = [sys.executable, os.path.join(VERIF, "sim", "cli.py"), "digests", prop, tier] + [str(k) for k in pickw]
            out = subprocess.run(cmd, env=env, capture_output=True, text=True, timeout=3000)
            got = {}
            for line in out.stdout.splitlines():
                if line.startswith("DIGEST "):
                    parts = line.split()
                    got[int(parts[1])] = parts[3] if len(parts) > 3 else None
            worlds["hashseeds"].append(hs)
            for k in pickw:
                worlds["compared"] += 1
                if got.get(k) is None:
                    harness_msgs.append("world run under PYTHONHASHSEED=%s gave no digest for run %d: %s" % (hs, k, out.stderr[-300:]))
                elif got[k] != world_digests[k]:
                    worlds["mismatches"] += 1
                    case = make_case(engine, prop, seed, k, tier)
                    world_violations.append((case, {"property": prop,
                                                    "clause": "result differs under another PYTHONHASHSEED (not deterministic)",
                                                    "key": {"hashseed": hs},
                                                    "detail": {"base_hashseed": os.environ.get("PYTHONHASHSEED"),
                                                               "base_digest": world_digests[k], "other_digest": got[k]}}))

    # ---- violations: confirm, shrink, write replay ------------------------------
    reported = []
    seen_classes = set()
    class_counts = {}
    for case, v in new_violations:
        class_counts[vclass(v)] = class_counts.get(vclass(v), 0) + 1
    for c, n in sorted(class_counts.items(), key=lambda kv: str(kv[0])):
        print("violation class seen %d times: %s | %s" % (n, c[1], c[2]), flush=True)
    max_reports = int(os.environ.get("VERIF_MAX_REPORTS", cfg.get("max_reports", 3)))
    for case, v in new_violations:
        c = vclass(v)
        if c in seen_classes:
            continue
        seen_classes.add(c)
        if len(reported) >= max_reports:
            continue
        path = confirm_shrink_write(engine, prop, case, v, harness_msgs)
        if path:
            reported.append((v, path))

    for case, v in world_violations[:2]:
        doc = {"property": prop, "seed": case.get("seed"), "run": case.get("run"), "tree": tree_id(), "engine": engine.__name__,
               "case": case, "original_units": engine.units(case), "minimised_units": engine.units(case),
               "violation": {"property": prop, "clause": v["clause"], "key": v["key"], "detail": v["detail"]},
               "world_check": {"hashseed": v["key"]["hashseed"]}}
        os.makedirs(os.path.join(VERIF, "replays"), exist_ok=True)
        path = os.path.join(VERIF, "replays", "%s-%s-%s-world.json" % (prop, case.get("seed"), case.get("run")))
        with open(path, "w") as f:
            json.dump(doc, f, indent=1, sort_keys=True, default=str)
        seen_classes.add(vclass(v))
        reported.append((v, path))

    wall = time.time() - t0
    # ---- evidence ----------------------------------------------------------------
    coverage = {
        "evaluations": stats["runs"],
        "wall_timeout_retries": WALL_RETRIES["count"],
        "distinct_nontrivial": len(nontrivial_sigs),
        "rule": engine.RULE,
        "samples": samples if samples else [{"note": "no sample collected"}],
        "distinct_signatures": len(signatures),
        "steps_total": stats["steps"],
        "simulated_time": "logical steps only: FRAME has no timers, waits or deadlines; steps_total is the count "
                          "of simulated operations",
        "runs_per_hour": int(stats["runs"] / wall * 3600) if wall > 0 else 0,
        "seeds": {"VERIF_SEED": seed, "run_indices": [0, max(0, i - 1)], "stream": engine.STREAM},
        "fault_free_runs": stats["fault_free_runs"],
        "faulted_runs": stats["faulted_runs"],
        "fault_counts": {"configured": stats["faults_configured"], "fired": stats["faults_fired"]},
        "probe_hits": stats["probes"],
        "operation_counts": stats["ops"],
        "components": engine.COMPONENTS,
        "hashseed_harness": os.environ.get("PYTHONHASHSEED"),
        "determinism_selftest": det,
        "worlds_other_hashseeds": worlds,
        "known_findings_seen": {kid: ks["count"] for kid, ks in known_seen.items()},
        "wall_capped": capped,
        "tree": tree_id(),
        "harness_errors": stats["harness_errors"],
    }
    if hasattr(engine, "extra_coverage"):
        coverage.update(engine.extra_coverage(stats))
    ev = {
        "property_id": prop, "tier": tier, "seed": seed, "level": "exploration",
        "coverage": coverage,
        "assumptions": engine.ASSUMPTIONS,
        "wall_s": round(wall, 2),
        "violations": len(seen_classes),
    }
    # VERIF_EVIDENCE_DIR: for self-test runs against patched worktrees, so that they do not overwrite the evidence of /repo
    evdir = os.environ.get("VERIF_EVIDENCE_DIR") or os.path.join(VERIF, "evidence")
    os.makedirs(evdir, exist_ok=True)
    evpath = os.path.join(evdir, prop + ".json")
    tmp = evpath + ".tmp"
    with open(tmp, "w") as f:
        json.dump(ev, f, indent=1, sort_keys=True)
        f.write("\n")
    os.replace(tmp, evpath)

    # ---- verdict -----------------------------------------------------------------
    print("runs=%d steps=%d distinct_nontrivial=%d faulted_runs=%d fired=%s wall=%.1fs" % (
        stats["runs"], stats["steps"], len(nontrivial_sigs), stats["faulted_runs"],
        json.dumps(stats["faults_fired"], sort_keys=True), wall), flush=True)
    for kid, ks in sorted(known_seen.items()):
        print("KNOWN-FINDING: property=%s %s [id=%s, seen in %d runs, first run %d]" % (
            prop, ks["entry"]["what"], kid, ks["count"], ks["first_run"]))
    if reported:
        for v, path in reported:
            print("violation: %s" % json.dumps({"clause": v.get("clause"), "key": v.get("key"),
                                                "detail": str(v.get("detail"))[:600]}, sort_keys=True))
            print("VIOLATION property=%s replay=%s" % (prop, path))
        return 1
    if seen_classes and not reported:
        # violations were seen but none could be confirmed on re-execution
        harness_msgs.append("violations seen but not confirmed on re-execution")
    if harness_msgs:
        for m in harness_msgs[:20]:
            print("HARNESS-ERROR %s" % m)
        return 3
    if stats["runs"] == 0:
        print("HARNESS-ERROR no run completed")
        return 3
    print("OK property=%s held on %d runs" % (prop, stats["runs"]))
    return 0


def confirm_shrink_write(engine, prop, case, v, harness_msgs):
    target = vclass(v)

    deadline = time.time() + float(os.environ.get("VERIF_SHRINK_WALL_S", "900"))

    def same_failure_many(cands):
        if time.time() > deadline and len(cands) > 1:
            # shrinking is best effort and bounded in wall time: what has been reached so far is the replay file
            return [False] * len(cands)
        res = run_cases(engine, cands)
        out = []
        for status, r in res:
            out.append(status == "ok" and any(vclass(x) == target for x in relevant(r, prop)))
        return out

    if not same_failure_many([case])[0]:
        harness_msgs.append("violation in run %s did not reproduce on re-execution: %s" % (case.get("run"), v.get("clause")))
        return None
    small = case
    if not os.environ.get("VERIF_NO_SHRINK"):
        try:
            small = shrinkmod.shrink_case(engine, case, same_failure_many,
                                          log=lambda m: print(m, flush=True))
        except Exception as e:  # shrinking is best effort; the unshrunk case is still a valid replay
            print("shrink failed (%r); keeping the unshrunk case" % (e,))
            small = case
    status, r = run_cases(engine, [small])[0]
    vv = None
    if status == "ok":
        for x in relevant(r, prop):
            if vclass(x) == target:
                vv = x
                break
    if vv is None:
        small, vv = case, v
    doc = {
        "property": prop, "seed": case.get("seed"), "run": case.get("run"), "tree": tree_id(),
        "engine": engine.__name__, "case": small, "original_units": engine.units(case),
        "minimised_units": engine.units(small),
        "violation": {"property": prop, "clause": vv.get("clause"), "key": vv.get("key"),
                      "detail": vv.get("detail")},
    }
    os.makedirs(os.path.join(VERIF, "replays"), exist_ok=True)
    tag = digest([target])[:6]
    path = os.path.join(VERIF, "replays", "%s-%s-%s-%s.json" % (prop, case.get("seed"), case.get("run"), tag))
    with open(path, "w") as f:
        json.dump(doc, f, indent=1, sort_keys=True, default=str)
        f.write("\n")
    return path


def replay(path: str) -> int:
    _own_scratch()
    with open(path) as f:
        doc = json.load(f)
    prop = doc["property"]
    engine = load_engine(prop)
    import_frame()
    engine.setup()
    print("replay property=%s seed=%s run=%s tree(recorded)=%s tree(now)=%s" % (
        prop, doc.get("seed"), doc.get("run"), doc.get("tree"), tree_id()))
    rcase = dict(doc["case"])
    rcase["want_history"] = True
    status, r = run_cases(engine, [rcase])[0]
    if status != "ok":
        print("HARNESS-ERROR replay run failed: %s" % (r,))
        return 3
    if doc.get("world_check"):
        hs = doc["world_check"]["hashseed"]
        env = dict(os.environ)
        env["PYTHONHASHSEED"] = hs
        env["VERIF_HASHSEED"] = hs
        out = subprocess.run([sys.executable, os.path.join(VERIF, "sim", "cli.py"), "worlddigest", path], env=env,
                             capture_output=True, text=True, timeout=3000)
        other = [ln.split()[1] for ln in out.stdout.splitlines() if ln.startswith("WORLD ")]
        print("world digest here=%s under PYTHONHASHSEED=%s: %s" % (r.get("world_digest"), hs, other))
        if other and other[0] != r.get("world_digest"):
            print("VIOLATION property=%s replay=%s" % (prop, path))
            return 1
        print("replay: no violation (same result under both hash seeds)")
        return 0
    want = vclass(doc["violation"])
    got = relevant(r, prop)
    known = load_known(prop)
    for x in list(got):
        e = match_known(x, known)
        if e is not None:
            print("KNOWN-FINDING: property=%s %s [id=%s]" % (prop, e["what"], e["id"]))
            got.remove(x)
    for h in (r.get("history") or [])[:200]:
        print("  step", json.dumps(h, default=str)[:300])
    for x in got:
        if vclass(x) == want:
            print("violation: %s" % json.dumps({"clause": x.get("clause"), "key": x.get("key"),
                                                "detail": str(x.get("detail"))[:1500]}, sort_keys=True))
            print("VIOLATION property=%s replay=%s" % (prop, path))
            return 1
    if got:
        print("replay produced a different violation class: %s" % json.dumps([vclass(x) for x in got]))
        print("VIOLATION property=%s replay=%s" % (prop, path))
        return 1
    print("replay: no violation (the recorded violation does not reproduce on this tree)")
    return 0


def digests(prop: str, tier: str, indices) -> int:
    _own_scratch()
    seed = rngmod.env_seed()
    engine = load_engine(prop)
    import_frame()
    engine.setup()
    cases = [make_case(engine, prop, seed, k, tier) for k in indices]
    results = run_cases(engine, cases, workers=min(4, len(cases)))
    for k, (status, res) in zip(indices, results):
        print("DIGEST %d %s %s" % (k, res.get("digest") if status == "ok" else "ERR",
                                   (res.get("world_digest") or "-") if status == "ok" else "-"))
    return 0


def worlddigest(path: str) -> int:
    _own_scratch()
    with open(path) as f:
        doc = json.load(f)
    engine = load_engine(doc["property"])
    import_frame()
    engine.setup()
    status, r = run_cases(engine, [doc["case"]])[0]
    print("WORLD %s" % (r.get("world_digest") if status == "ok" else "ERR"))
    return 0
