#!/venv/bin/python
"""Command line of the FRAME deterministic-simulation checks.

  cli.py check <property> [--tier quick|thorough]
  cli.py replay <replay-file>
  cli.py digests <property> <tier> <run-index>...      (used by the determinism self-test)
  cli.py runone <property> <tier> <run-index>          (prints the full result of one run)
"""
import json
import os
import sys

VERIF = os.path.dirname(os.path.dirname(os.path.abspath(__file__)))
if VERIF not in sys.path:
    sys.path.insert(0, VERIF)
# `python sim/cli.py` puts /verif/sim first on sys.path; the package root must win
sys.path[:] = [p for p in sys.path if os.path.abspath(p or ".") != os.path.join(VERIF, "sim")]

from sim import runner  # noqa: E402


def main(argv) -> int:
    if len(argv) < 2:
        print(__doc__)
        return 2
    runner.ensure_hashseed()
    os.environ[runner.GUARD] = "1"
    cmd = argv[1]
    if cmd == "check":
        prop = argv[2]
        tier = os.environ.get("VERIF_TIER", "quick")
        if "--tier" in argv:
            tier = argv[argv.index("--tier") + 1]
        if tier not in ("quick", "thorough"):
            tier = "quick"
        return runner.check(prop, tier)
    if cmd == "replay":
        return runner.replay(argv[2])
    if cmd == "worlddigest":
        return runner.worlddigest(argv[2])
    if cmd == "digests":
        return runner.digests(argv[2], argv[3], [int(x) for x in argv[4:]])
    if cmd == "runone":
        from sim import rng as rngmod
        prop, tier, k = argv[2], argv[3], int(argv[4])
        engine = runner.load_engine(prop)
        runner.import_frame()
        engine.setup()
        case = runner.make_case(engine, prop, rngmod.env_seed(), k, tier)
        case["want_history"] = True
        status, res = runner.run_cases(engine, [case])[0]
        print(json.dumps({"case": case, "status": status, "result": res}, indent=1, default=str))
        return 0
    print(__doc__)
    return 2


if __name__ == "__main__":
    sys.exit(main(sys.argv))
