"""Delta debugging over explicit operation / fault lists.

An engine exposes
    units(case)            -> int   number of removable units (ops, clients, faults)
    restrict(case, keep)   -> case  the case with only the units whose index is in keep
    simplify(case)         -> iterable of simpler candidate cases (optional)
and the harness supplies
    fails(cases)           -> list[bool]  evaluated each in a fresh child, in parallel:
                              True iff the *same violation class* shows up.
Candidate order is deterministic; of the candidates of one round the first
(lowest index) that still fails is taken, so shrinking is a pure function of the
failing case and the code under test.
"""


def ddmin(n_units: int, test_many, max_rounds: int = 200):
    """Classic ddmin on the index list [0..n).  test_many(list_of_keep_lists) -> list[bool]."""
    keep = list(range(n_units))
    gran = 2
    rounds = 0
    while len(keep) >= 2 and rounds < max_rounds:
        rounds += 1
        chunk = max(1, len(keep) // gran)
        subsets = [keep[i:i + chunk] for i in range(0, len(keep), chunk)]
        cands = []
        # complements first (removing one chunk), then the chunks alone
        for s in subsets:
            comp = [k for k in keep if k not in set(s)]
            if comp and len(comp) < len(keep):
                cands.append(comp)
        if gran == 2:
            for s in subsets:
                if len(s) < len(keep):
                    cands.append(s)
        if not cands:
            break
        verdicts = test_many(cands)
        hit = None
        for c, v in zip(cands, verdicts):
            if v:
                hit = c
                break
        if hit is not None:
            keep = hit
            gran = max(gran - 1, 2)
        else:
            if chunk == 1:
                break
            gran = min(len(keep), gran * 2)
    return keep


def shrink_case(engine, case, same_failure_many, log=None):
    """Returns a (locally) minimal case that still fails the same way."""
    cur = case
    for _outer in range(6):
        changed = False
        n = engine.units(cur)
        if n >= 2:
            def test_many(keeps, _cur=cur):
                return same_failure_many([engine.restrict(_cur, k) for k in keeps])
            keep = ddmin(n, test_many)
            if len(keep) < n:
                cur = engine.restrict(cur, keep)
                changed = True
                if log:
                    log("shrink: %d -> %d units" % (n, len(keep)))
        simplify = getattr(engine, "simplify", None)
        if simplify is not None:
            progress = True
            guard = 0
            while progress and guard < 50:
                guard += 1
                progress = False
                cands = list(simplify(cur))
                if not cands:
                    break
                verdicts = same_failure_many(cands)
                for c, v in zip(cands, verdicts):
                    if v:
                        cur = c
                        progress = True
                        changed = True
                        break
        if not changed:
            break
    return cur
