"""SimSolver: the process boundary between GEKKO and its `apm` solver binary.

Installed as the `subprocess` attribute of the module gekko.gekko (reached through
sys.modules['gekko.gekko']; the attribute `gekko.gekko` of the package is shadowed
by the class).  The real solver runs in the harness-owned scratch directory; the
outcome that crosses the boundary is then altered according to the fault plan:

  killed     empty stdout, the solver wrote nothing: results.json and options.json are what they were before the launch
             (absent in a fresh directory)
  error      stdout carries an '@error:' block
  truncated  results.json cut at a seeded byte
  missing    results.json is what it was before the launch (absent in a fresh directory); options.json is written
  enospc     the solver is not started and its model directory loses results: Popen raises OSError(ENOSPC)
"""
import errno
import os
import subprocess as _real


class _FakeStream:
    def __init__(self, text):
        self._lines = text.splitlines(True)

    def readline(self):
        return self._lines.pop(0) if self._lines else ""

    def read(self):
        t = "".join(self._lines)
        self._lines = []
        return t


class _Proc:
    def __init__(self, outs, errs, rc):
        self._outs, self._errs, self.returncode = outs, errs, rc
        self.stdout = _FakeStream(outs)
        self.stderr = _FakeStream(errs)

    def communicate(self, input=None, timeout=None):
        return self._outs, self._errs

    def wait(self, timeout=None):
        return self.returncode

    def kill(self):
        pass

    def poll(self):
        return self.returncode


class SimSolver:
    PIPE = _real.PIPE
    STDOUT = _real.STDOUT
    TimeoutExpired = _real.TimeoutExpired
    CalledProcessError = _real.CalledProcessError

    def __init__(self, plan=None, wall_limit=120.0):
        self.plan = {int(p["solve"]): p for p in (plan or [])}
        self.nsolve = 0
        self.fired = []
        self.log = []
        self.wall_limit = wall_limit

    def call(self, *a, **kw):  # GEKKO.open_folder
        return 0

    def Popen(self, args, cwd=None, env=None, **kw):
        self.nsolve += 1
        k = self.nsolve
        fault = self.plan.get(k)
        if fault and fault["kind"] == "enospc":
            self.fired.append({"solve": k, "kind": "enospc"})
            raise OSError(errno.ENOSPC, "No space left on device (injected)")
        res = os.path.join(cwd, "results.json")
        opt = os.path.join(cwd, "options.json")
        # what the directory held before this launch: a solver that dies writes nothing, it does not clean up either
        pre = {f: (open(f, "rb").read() if os.path.isfile(f) else None) for f in (res, opt)}

        def restore(f):
            if pre[f] is None:
                if os.path.isfile(f):
                    os.remove(f)
            else:
                with open(f, "wb") as fh:
                    fh.write(pre[f])

        p = _real.Popen(args, stdout=_real.PIPE, stderr=_real.PIPE, cwd=cwd, env=env, universal_newlines=True)
        try:
            outs, errs = p.communicate(timeout=self.wall_limit)
        except _real.TimeoutExpired:
            p.kill()
            outs, errs = p.communicate()
        rc = p.returncode
        rec = {"solve": k, "rc": rc, "had_results": os.path.isfile(res), "stdout_len": len(outs)}
        if fault:
            kind = fault["kind"]
            if kind == "killed":
                outs, errs, rc = "", "", -9
                for f in (res, opt):
                    restore(f)
            elif kind == "error":
                outs = outs + "\n @error: Solution Not Found\n injected by the simulator\n"
            elif kind == "truncated":
                if os.path.isfile(res):
                    data = open(res, "rb").read()
                    cut = min(len(data) - 1, max(1, int(fault.get("byte", 10)) % max(2, len(data))))
                    with open(res, "wb") as f:
                        f.write(data[:cut])
            elif kind == "missing":
                restore(res)
            elif kind == "mirror":
                # not a failure: the solver legitimately lands on the OTHER branch of the squared rigid-offset equations of
                # flippable hard modules (x_m - x_m_r)^2 == const: every rectangle of such a module is reflected about the
                # module's centre on one axis
                if os.path.isfile(res):
                    import json as _json
                    data = _json.load(open(res))
                    ax = fault.get("axis", "x")
                    for m in fault.get("modules", []):
                        base = "%s_%s" % (ax, m.lower())
                        if base in data:
                            c = data[base][0]
                            for key in list(data):
                                if key.startswith(base + "_") and key[len(base) + 1:].isdigit():
                                    data[key] = [2 * c - v for v in data[key]]
                    with open(res, "w") as f:
                        _json.dump(data, f)
            self.fired.append({"solve": k, "kind": kind})
            rec["fault"] = kind
        self.log.append(rec)
        return _Proc(outs, errs, rc)
