"""Canonical rendering and digests of observable results.

Floats are rendered with float.hex(): comparisons that must be exact (same code,
same inputs, different history) are exact.
"""
import hashlib
import json
import math
from fractions import Fraction


def canon(x):
    """Turns a nested structure into JSON-able canonical form."""
    if x is None or isinstance(x, (bool, str)):
        return x
    if isinstance(x, int):
        return x
    if isinstance(x, float):
        if math.isnan(x):
            return "f:nan"
        if math.isinf(x):
            return "f:inf" if x > 0 else "f:-inf"
        return "f:" + x.hex()
    if isinstance(x, Fraction):
        return "q:%d/%d" % (x.numerator, x.denominator)
    if isinstance(x, dict):
        return {str(k): canon(v) for k, v in sorted(x.items(), key=lambda kv: str(kv[0]))}
    if isinstance(x, (list, tuple)):
        return [canon(v) for v in x]
    if isinstance(x, (set, frozenset)):
        return sorted((canon(v) for v in x), key=lambda v: json.dumps(v, sort_keys=True))
    if hasattr(x, "item"):  # numpy scalar
        return canon(x.item())
    return "r:" + repr(x)


def dumps(x) -> str:
    return json.dumps(canon(x), sort_keys=True, separators=(",", ":"))


def digest(x) -> str:
    return hashlib.blake2b(dumps(x).encode(), digest_size=10).hexdigest()


def short(x, n: int = 160) -> str:
    s = dumps(x)
    return s if len(s) <= n else s[: n - 3] + "..."


def excname(e) -> str:
    """Name of the builtin exception class an error belongs to (a project-defined subclass of AssertionError is an
    AssertionError for the purpose of classifying a violation: renaming or refining error classes is not a change of
    behaviour)."""
    for c in type(e).__mro__:
        if c.__module__ == "builtins":
            return c.__name__
    return type(e).__name__
