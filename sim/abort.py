"""Abort injector: kills an operation at an arbitrary instant.

A sys.settrace tracer counts `line` events in frames whose file lies under the
tree under test and raises SimAbort(BaseException) at the k-th one.  Models an
operation that dies midway (KeyboardInterrupt, MemoryError, killed tool).
"""
import sys


class SimAbort(BaseException):
    pass


class Aborter:
    def __init__(self, root: str, k: int, only: str | None = None):
        self.root = root
        self.only = only  # count only line events in files whose path ends with this suffix
        self.k = int(k)
        self.count = 0
        self.fired = False
        self.where = None

    def _local(self, frame, event, arg):
        if event == "line":
            self.count += 1
            if self.count == self.k and not self.fired:
                self.fired = True
                self.where = "%s:%d" % (frame.f_code.co_filename[len(self.root):], frame.f_lineno)
                sys.settrace(None)
                raise SimAbort("abort at line event %d (%s)" % (self.k, self.where))
        return self._local

    def _global(self, frame, event, arg):
        fn = frame.f_code.co_filename
        if fn.startswith(self.root) and (self.only is None or fn.endswith(self.only)):
            return self._local
        return None

    def run(self, fn, *args, **kwargs):
        """Runs fn under the tracer.  Returns ("done", value) or ("aborted", where).
        Ordinary exceptions of fn propagate."""
        old = sys.gettrace()
        sys.settrace(self._global)
        try:
            return ("done", fn(*args, **kwargs))
        except SimAbort:
            return ("aborted", self.where)
        finally:
            sys.settrace(old)


def count_line_events(root: str, fn, *args, **kwargs) -> int:
    a = Aborter(root, -1)
    a.run(fn, *args, **kwargs)
    return a.count
