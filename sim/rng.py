"""Seeded randomness for the simulator.

One integer (VERIF_SEED) decides everything.  Streams are derived by hashing
labels with BLAKE2 (never Python's hash(), which depends on PYTHONHASHSEED).
The generator itself is SplitMix64 so that the draw sequence does not depend on
the Python version's `random` implementation details.
"""
import hashlib
import os

MASK = (1 << 64) - 1
DEFAULT_SEED = 20260104


def env_seed() -> int:
    s = os.environ.get("VERIF_SEED", "").strip()
    if not s:
        return DEFAULT_SEED
    try:
        return int(s, 0)
    except ValueError:
        return int.from_bytes(hashlib.blake2b(s.encode(), digest_size=8).digest(), "big")


def derive(seed: int, *labels) -> int:
    h = hashlib.blake2b(digest_size=8)
    h.update(str(int(seed)).encode())
    for lab in labels:
        h.update(b"\x00")
        h.update(str(lab).encode())
    return int.from_bytes(h.digest(), "big")


class Rng:
    """SplitMix64 with the handful of helpers the generators need."""

    __slots__ = ("state", "draws")

    def __init__(self, seed: int):
        self.state = seed & MASK
        self.draws = 0

    def sub(self, *labels) -> "Rng":
        """Independent sub-stream; does not advance this stream."""
        return Rng(derive(self.state, *labels))

    def u64(self) -> int:
        self.draws += 1
        self.state = (self.state + 0x9E3779B97F4A7C15) & MASK
        z = self.state
        z = ((z ^ (z >> 30)) * 0xBF58476D1CE4E5B9) & MASK
        z = ((z ^ (z >> 27)) * 0x94D049BB133111EB) & MASK
        return z ^ (z >> 31)

    def random(self) -> float:
        return (self.u64() >> 11) * (1.0 / (1 << 53))

    def below(self, n: int) -> int:
        """Uniform integer in [0, n)."""
        assert n > 0
        if n == 1:
            return 0
        # rejection sampling, unbiased
        lim = (1 << 64) - ((1 << 64) % n)
        while True:
            v = self.u64()
            if v < lim:
                return v % n

    def randint(self, a: int, b: int) -> int:
        """Uniform integer in [a, b]."""
        return a + self.below(b - a + 1)

    def chance(self, p: float) -> bool:
        return self.random() < p

    def choice(self, seq):
        return seq[self.below(len(seq))]

    def weighted(self, pairs):
        """pairs: list of (item, weight)."""
        tot = sum(w for _, w in pairs)
        x = self.random() * tot
        acc = 0.0
        for it, w in pairs:
            acc += w
            if x < acc:
                return it
        return pairs[-1][0]

    def shuffle(self, lst: list) -> None:
        for i in range(len(lst) - 1, 0, -1):
            j = self.below(i + 1)
            lst[i], lst[j] = lst[j], lst[i]

    def sample(self, seq, k: int) -> list:
        lst = list(seq)
        self.shuffle(lst)
        return lst[:k]

    def uniform(self, a: float, b: float) -> float:
        return a + (b - a) * self.random()
