"""Simulator-owned randomness: replaces the `random` *module object* seen by a FRAME module.

Modes
  mt      a private random.Random(seed): an honest Mersenne-Twister stream (the deciding mode)
  lowent  uniform(a,b) draws are quantised to a + (b-a)*j/2^m: coincidences, symmetric and extreme
          starts become frequent
Every draw is counted, so a run can assert that the seam is the only source of randomness.
"""
import random as _random


class SimRandom:
    def __init__(self, seed: int = 0, mode: str = "mt", bits: int = 2):
        self._rng = _random.Random(seed)
        self.mode = mode
        self.bits = bits
        self.draws = 0
        self.seed_calls = []

    # -- module-level API of `random` used by FRAME -----------------------------
    def seed(self, a=None, *args, **kwargs):
        self.seed_calls.append(a)
        if a is not None:
            self._rng.seed(a)
        # seed(None) would read the OS entropy pool: the simulator keeps its own stream instead

    def random(self):
        self.draws += 1
        if self.mode == "lowent":
            return self._rng.randrange(0, 2 ** self.bits) / float(2 ** self.bits)
        return self._rng.random()

    def uniform(self, a, b):
        self.draws += 1
        if self.mode == "lowent":
            j = self._rng.randrange(0, 2 ** self.bits + 1)
            return a + (b - a) * (j / float(2 ** self.bits))
        return self._rng.uniform(a, b)

    def gauss(self, mu=0.0, sigma=1.0):
        self.draws += 1
        return self._rng.gauss(mu, sigma)

    def randint(self, a, b):
        self.draws += 1
        return self._rng.randint(a, b)

    def randrange(self, *args):
        self.draws += 1
        return self._rng.randrange(*args)

    def choice(self, seq):
        self.draws += 1
        return self._rng.choice(seq)

    def shuffle(self, x):
        self.draws += 1
        return self._rng.shuffle(x)

    def getstate(self):
        return self._rng.getstate()

    def setstate(self, s):
        return self._rng.setstate(s)

    Random = _random.Random
