"""In-memory file system with fault injection, installed as `open` in the
module globals of the FRAME modules that do file I/O.

Semantics
  * path -> durable bytes.  A file opened for writing keeps a *volatile* buffer;
    the buffer becomes durable on close() (and on flush()).
  * Unknown paths raise FileNotFoundError.  Nothing falls through to the disk.
  * Fault plan (a list, consumed as faults fire; every fault fires at most once):
        {"kind":"enoent","op":"open_r"|"open_w","nth":k}   k-th matching open
        {"kind":"eio_read","nth":k}                          k-th read() call
        {"kind":"enospc"|"eio_write","nth":k,"byte":b}      k-th file opened for
                 writing: the write that crosses byte b stores the prefix, then
                 raises; the prefix is durable (that is what a full disk leaves)
        {"kind":"close_err","nth":k}                         close() raises EIO
                 after making the data durable (the error is reported late)
        {"kind":"crash","nth":k,"byte":b}                    k-th file opened for
                 writing: at byte b a SimCrash(BaseException) is raised; only a
                 seeded prefix (cut) of the volatile data is durable
"""
import errno
import io
import os


class _DirView:
    """Dict-like view of a real directory: path (relative to the directory) -> bytes.  The directory is the source of
    truth, so whatever the code under test does to it with os-level calls (rename, replace, remove, stat) is seen here."""

    def __init__(self, fs):
        self._fs = fs

    def _real(self, key):
        return os.path.join(self._fs.mirror, key)

    def __contains__(self, key):
        return os.path.isfile(self._real(key))

    def __getitem__(self, key):
        try:
            with open(self._real(key), "rb") as f:
                return f.read()
        except (FileNotFoundError, IsADirectoryError):
            raise KeyError(key)

    def get(self, key, default=None):
        try:
            return self[key]
        except KeyError:
            return default

    def __setitem__(self, key, value):
        real = self._real(key)
        os.makedirs(os.path.dirname(real) or self._fs.mirror, exist_ok=True)
        with open(real, "wb") as f:
            f.write(value)

    def keys(self):
        out = []
        for root, _dirs, names in os.walk(self._fs.mirror):
            for n in names:
                out.append(os.path.relpath(os.path.join(root, n), self._fs.mirror))
        return sorted(out)

    def __iter__(self):
        return iter(self.keys())

    def items(self):
        return [(k, self[k]) for k in self.keys()]

    def __len__(self):
        return len(self.keys())


class SimCrash(BaseException):
    """The simulated process dies here.  Only SimFS content survives."""


class SimFS:
    def __init__(self, plan=None, mirror=None):
        """mirror: a real scratch directory.  When given, durable content lives in real files there (the directory is the
        source of truth) and path(name) hands out absolute paths inside it, so that code which stats, renames, replaces,
        lists or memoises files by name works on a real file system; SimFS remains the place where faults are injected
        (every open() of the code under test goes through it)."""
        self.mirror = mirror
        self.files = _DirView(self) if mirror else {}
        self.plan = [dict(p) for p in (plan or [])]
        self.fired: list[dict] = []
        self.counts = {"open_r": 0, "open_w": 0, "read": 0, "write_calls": 0, "bytes_written": 0}
        self.log: list[tuple] = []

    # -- fault plan helpers ------------------------------------------------
    def _take(self, kind_set, **match):
        for p in self.plan:
            if p.get("kind") in kind_set and all(p.get(k) == v for k, v in match.items()):
                self.plan.remove(p)
                self.fired.append(p)
                return p
        return None

    def _peek(self, kind_set, **match):
        for p in self.plan:
            if p.get("kind") in kind_set and all(p.get(k) == v for k, v in match.items()):
                return p
        return None

    def path(self, name: str) -> str:
        """The path to hand to the code under test for a file called `name`."""
        return os.path.join(self.mirror, name) if self.mirror else name

    def _key(self, path) -> str:
        path = str(path)
        if self.mirror:
            ap = os.path.abspath(path)
            if ap.startswith(self.mirror + os.sep):
                return ap[len(self.mirror) + 1:]
        return path

    # -- the seam ----------------------------------------------------------
    def open(self, path, mode="r", *args, **kwargs):
        path = self._key(path)
        binary = "b" in mode
        if "w" in mode or "a" in mode or "x" in mode:
            self.counts["open_w"] += 1
            nth = self.counts["open_w"]
            self.log.append(("open_w", path, nth))
            if self._take({"enoent"}, op="open_w", nth=nth):
                raise FileNotFoundError(errno.ENOENT, "No such file or directory (injected)", path)
            initial = self.files.get(path, b"") if "a" in mode else b""
            self.files[path] = initial  # truncation is immediately visible
            return _SimWriter(self, path, nth, binary, initial)
        self.counts["open_r"] += 1
        nth = self.counts["open_r"]
        self.log.append(("open_r", path, nth))
        if self._take({"enoent"}, op="open_r", nth=nth):
            raise FileNotFoundError(errno.ENOENT, "No such file or directory (injected)", path)
        if path not in self.files:
            raise FileNotFoundError(errno.ENOENT, "No such file or directory", path)
        return _SimReader(self, path, binary)

    # direct access for the harness (not subject to faults)
    def put(self, path: str, data) -> None:
        self.files[self._key(path)] = data.encode() if isinstance(data, str) else bytes(data)

    def get(self, path: str) -> bytes | None:
        return self.files.get(self._key(path))

    def text(self, path: str) -> str | None:
        b = self.files.get(self._key(path))
        return None if b is None else b.decode("utf-8", errors="replace")


class _SimReader:
    def __init__(self, fs: SimFS, path: str, binary: bool):
        self.fs, self.path, self.binary = fs, path, binary
        self.data = fs.files[path]
        self.pos = 0
        self.closed = False

    def read(self, n=-1):
        self.fs.counts["read"] += 1
        if self.fs._take({"eio_read"}, nth=self.fs.counts["read"]):
            raise OSError(errno.EIO, "Input/output error (injected)", self.path)
        if n is None or n < 0:
            chunk = self.data[self.pos:]
            self.pos = len(self.data)
        else:
            chunk = self.data[self.pos:self.pos + n]
            self.pos += len(chunk)
        return chunk if self.binary else chunk.decode("utf-8")

    def readline(self):
        i = self.data.find(b"\n", self.pos)
        end = len(self.data) if i < 0 else i + 1
        chunk = self.data[self.pos:end]
        self.pos = end
        return chunk if self.binary else chunk.decode("utf-8")

    def __iter__(self):
        while True:
            ln = self.readline()
            if not ln:
                return
            yield ln

    def readlines(self):
        return list(self)

    def close(self):
        self.closed = True

    def __enter__(self):
        return self

    def __exit__(self, *exc):
        self.close()
        return False


class _SimWriter(io.TextIOBase):
    """Text or binary writer with a volatile tail."""

    def __init__(self, fs: SimFS, path: str, nth: int, binary: bool, initial: bytes):
        super().__init__()
        self.fs, self.path, self.nth, self.binary = fs, path, nth, binary
        self.durable = initial
        self.volatile = b""
        self._closed = False
        self.count = 0  # bytes written through this handle

    def writable(self):
        return True

    def write(self, s):
        if self._closed:
            raise ValueError("I/O operation on closed file.")
        b = s if isinstance(s, (bytes, bytearray)) else str(s).encode("utf-8")
        self.fs.counts["write_calls"] += 1
        fault = self.fs._peek({"enospc", "eio_write", "crash"}, nth=self.nth)
        if fault is not None and self.count + len(b) > fault.get("byte", 0):
            keep = max(0, fault.get("byte", 0) - self.count)
            self.fs._take({fault["kind"]}, nth=self.nth)
            if fault["kind"] == "crash":
                allv = self.volatile + b[:keep]
                cut = min(len(allv), fault.get("cut", len(allv)))
                self.fs.files[self.path] = self.durable + allv[:cut]
                self._closed = True
                raise SimCrash("crash while writing %s at byte %d" % (self.path, self.count + keep))
            self.volatile += b[:keep]
            self.count += keep
            self._sync()
            code = errno.ENOSPC if fault["kind"] == "enospc" else errno.EIO
            raise OSError(code, "%s (injected)" % ("No space left on device" if code == errno.ENOSPC
                                                    else "Input/output error"), self.path)
        self.volatile += b
        self.count += len(b)
        self.fs.counts["bytes_written"] += len(b)
        return len(s)

    def _sync(self):
        self.durable += self.volatile
        self.volatile = b""
        self.fs.files[self.path] = self.durable

    def flush(self):
        if not self._closed:
            self._sync()

    def close(self):
        if self._closed:
            return
        self._sync()
        self._closed = True
        if self.fs._take({"close_err"}, nth=self.nth):
            raise OSError(errno.EIO, "Input/output error on close (injected)", self.path)

    @property
    def closed(self):
        return self._closed

    def __enter__(self):
        return self

    def __exit__(self, *exc):
        self.close()
        return False
