#!/bin/sh
# Soundness soak: every quick check under many VERIF_SEED values on the current tree.
# usage: soak.sh "<props>" <first-seed> <last-seed> [tier]
PROPS="${1:-C02 C07 C12 C19 C20}"
A="${2:-1}"; B="${3:-20}"; TIER="${4:-quick}"
cd "$(dirname "$0")"
fail=0
for s in $(seq "$A" "$B"); do
  for p in $PROPS; do
    out=$(VERIF_SEED=$s VERIF_NO_FRESH=1 timeout 3000 /venv/bin/python sim/cli.py check "$p" --tier "$TIER" 2>&1)
    rc=$?
    line=$(echo "$out" | grep -v "^KNOWN" | tail -1 | cut -c1-200)
    echo "seed=$s $p rc=$rc $line"
    if [ $rc -ne 0 ]; then fail=1; echo "$out" | grep "^violation\|^VIOLATION\|^HARNESS" | cut -c1-1500; fi
  done
done
exit $fail
