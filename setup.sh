#!/bin/sh
# Offline setup: nothing is installed; verify that what the checks need is present.
set -e
PY=/venv/bin/python
test -x "$PY" || { echo "missing $PY"; exit 1; }
REPO="${FRAME_REPO:-/repo}"
cd "$REPO"
"$PY" - <<'PYEOF'
import os, sys
root = os.path.abspath(os.environ.get("FRAME_REPO", "/repo"))
sys.path.insert(0, root)
import frame, tools
assert os.path.abspath(frame.__file__).startswith(root), frame.__file__
assert os.path.abspath(tools.__file__).startswith(root), tools.__file__
import numpy, ruamel.yaml
from pysat.solvers import Solver
s = Solver(); s.add_clause([1]); assert s.solve()
import gekko
apm = os.path.join(os.path.dirname(gekko.__file__), "bin", "apm")
assert os.path.exists(apm), "gekko's apm binary is missing: " + apm
print("setup ok: frame from", root, "pysat", "gekko", gekko.__version__, "numpy", numpy.__version__)
PYEOF
mkdir -p /verif/evidence /verif/replays
