#!/usr/bin/env python3
"""Regenerates MANIFEST.json from the table below (keeps it valid at all times)."""
import json
import os

HERE = os.path.dirname(os.path.abspath(__file__))
PY = "/venv/bin/python"

NOT_APPLICABLE = {
    "C01": "Die tiling is a pure function of one die description: no schedule, clock, I/O, randomness or state that "
           "outlives the call enters; nothing for a simulator to vary (its tolerance's history-dependence is probed under C20).",
    "C03": "The initial allocation is a pure function of (die, netlist, include-zero flag); no interleaving, fault or time dimension.",
    "C04": "Write->read round trip is a pure function of the netlist; deterministic simulation has nothing to schedule or inject "
           "(the netlist writer is still exercised as the transport inside C19's pipeline).",
    "C05": "Derived quantities and the accept/reject verdict are pure functions of the document; an 'injected defect' is a different "
           "input, not a storage or scheduling fault.",
    "C06": "Orthogon recognition is a pure function of the rectangle list (its dependence on the process-wide tolerance is C20's subject).",
    "C08": "The model set of the generated formula is a pure function of the grid and k; no history, fault or schedule in it.",
    "C09": "The meaning of the generated equation system is a pure function of (netlist, die, ratio limit).",
    "C11": "Die refinement is a pure function of (die, r, n).",
    "C15": "Decomposition is a pure function of the 0/1 grid; exhaustive small grids would be model checking, a different family.",
    "C16": "Expression algebra is a pure function of the expression tree (it is nevertheless exercised as the front end of every "
           "inequality posted in C07's histories, which is how the Expr.__mul__ defect was found).",
    "C17": "Disc overlap is a pure function of two centres and two radii.",
    "C18": "Rectangle operations are pure functions of their arguments (and of the tolerance, see C20).",
}

CHECKS = {
    "C10": {
        "engine": "c10_glbfloor",
        "design_ref": "DESIGN.md 4.7",
        "technique": "deterministic simulation of the two-process computation library <-> apm solver: fault injection at the "
                     "subprocess seam (solver killed, @error, truncated or lost result files, ENOSPC) in seeded solves of the "
                     "refine/optimise loop; feasibility oracle on every returned (die, allocation)",
        "text": "Seeded search over instances (small dies with blockages and fixed regions, netlists mixing soft, hard, "
                "flippable and fixed modules, thresholds, trade-offs, iteration limits) and over fault sequences at the solver "
                "process boundary. Whenever glbfloor returns, cells must not overlap and lie in the die, ratios in [0,1], no "
                "cell above 100%, centres in the die, fixed modules untouched and owning their cells, hard modules only "
                "translated or mirrored. With a fault injected, raising is fine; returning infeasible values is the violation. "
                "Sampling, not proof.",
        "note": "The apm/IPOPT binary and GEKKO run real; SimSolver only alters what crosses the process boundary after the "
                "real solve (a killed solver leaves the directory as it was before the launch). Instances on which the solver "
                "finds no solution raise and are tallied as 'did not return'.",
    },
    "C13": {
        "engine": "c13_force",
        "design_ref": "DESIGN.md 4.6",
        "technique": "deterministic simulation across worlds: the same instance run in a fresh child, in children with seeded "
                     "prior FRAME histories / re-seeded global random / GC disabled or forced, and in fresh interpreters under "
                     "other PYTHONHASHSEED values; bit-identical centres required; per-world oracles and an independent "
                     "arg-min reference over the twelve spring constants",
        "text": "Seeded search over instances and over ambient conditions the simulator controls (prior history in the "
                "process, global random state, garbage-collector regime, hash seed). Every world must return bit-identical "
                "centres and leave the global random state untouched; in every world fixed modules stay, centres are finite "
                "and inside the die, nothing but centres changes, and force_algorithm returns exactly the layout of the spring "
                "constant with the first strictly smallest cost. Sampling, not proof.",
        "note": "Fixed centres are compared within 1e-12 * die size (re-centring costs one rounding), everything else exactly. "
                "The cost uses the library's functions for the arg-min and an independent formula as a cross-check.",
    },
    "C14": {
        "engine": "c14_spectral",
        "design_ref": "DESIGN.md 4.5",
        "technique": "deterministic simulation with the simulator owning the random module of the spectral algorithm: many "
                     "honest Mersenne-Twister seeds and low-entropy quantised draw schedules per netlist, draw counting, "
                     "disc-containment / rigidity / invariance oracles",
        "text": "The property is quantified over schedules of the random start: each generated netlist (>=4 movable modules, "
                "connected, discs fit) is placed under 4-10 seeds with 0-4 trials; every honest seed must return with every "
                "movable disc inside the die, fixed modules untouched, hard modules translated rigidly, areas and nets "
                "unchanged, and exactly 2 x unknown coordinates x trials draws consumed. Failures only reachable with "
                "quantised draws are logged as unrealised degenerate starts. Sampling, not proof.",
        "note": "Containment tolerance 1e-9 * max(W,H). Terminals are outside C14's quantifier (soft, hard, fixed) and are not "
                "generated (spectral_layout divides by the zero area of an unfixed terminal - noted in DESIGN.md).",
    },
    "C20": {
        "engine": "c20_history",
        "design_ref": "DESIGN.md 4.1",
        "technique": "deterministic simulation: seeded interleaving of 2-4 clients owning unrelated designs in one interpreter, "
                     "reject/io/abort fault injection, every client re-executed alone in a fresh forked interpreter and compared "
                     "operation by operation on canonical digests; divergences attributed by forcing one process-wide variable "
                     "to its interleaved trace; ddmin replay files",
        "text": "Seeded search over histories: which unrelated designs were loaded, decomposed, refined, encoded or legalised "
                "before the probed operation, in which order, with which loads rejected or killed midway. Each operation's "
                "observable result (verdict, exception class, full canonical result; SAT encodings by their "
                "projected model set) must equal that of the same script run alone in a fresh process. A divergence is attributed to "
                "the process-wide variable that alone reproduces it; two attributed leaks are kept as known findings, "
                "anything else is a violation. Sampling, not proof; the level fits because the property is a statement "
                "about histories over process-global state.",
        "note": "A forked child of a zygote that imported FRAME but executed no operation stands for a fresh interpreter. "
                "Designs within one run stay within a factor 1000 in size. Known findings are keyed by attributed variable. "
                "SAT encodings are compared by meaning (projected model set); the DIMACS text is an observation (probe).",
    },
    "C19": {
        "engine": "c19_documents",
        "design_ref": "DESIGN.md 4.3",
        "technique": "deterministic simulation: producer/consumer pipeline over an in-memory file system with seeded write "
                     "faults (ENOSPC/EIO at byte k, error at close, ENOENT), crash mid-write and restart from durable files, "
                     "read faults; semantic-digest oracle document-vs-object, object-unchanged and repeated-write oracles; "
                     "ddmin replay files",
        "text": "Seeded search over producer/consumer histories: every producer FRAME has (die and allocation writers before "
                "and after refinement, netgen for each topology and size, the FloorSet converter on synthetic instances, the "
                "rect and legaliser netlist emitters, the netlist writer as transport) writes 1-4 times through the simulated "
                "file system or to a string; the matching reader must accept the document and the design read must equal the "
                "design written on an independent semantic digest, the object must be unchanged, repeated writes identical; "
                "under write faults the call returns with a good file or raises, and a retry gives the never-faulted document. "
                "Sampling, not proof.",
        "note": "Numbers compare exactly. Torn documents after a crash are recorded, not judged. rect solutions and FloorSet "
                "instances are synthesised (DLL/dataset unavailable offline); the legaliser's model is built and, in part of the "
                "runs, solved for one or two iterations. File names rotate or are fixed per kind of document (seeded).",
    },
    "C02": {
        "engine": "c02_c12_refine",
        "design_ref": "DESIGN.md 4.4",
        "technique": "deterministic simulation: seeded histories over a pool of allocations sharing Rectangle objects, stub "
                     "optimiser as environment, persist/restart through a simulated file system with write faults, abort "
                     "injection; exact-rational reference model of the cells checked after every step; ddmin replay files",
        "text": "Seeded search over compositions of refine / uniform-depth / griddify (applied to any earlier allocation of the "
                "pool), interleaved with degenerate optimiser answers, persist-and-restart and operations killed midway. After "
                "every step an exact rational model decides tiling, non-overlap, ratio inheritance, fixed cells uncut, and "
                "per-module area and centroid through the library's own API. Sampling, not proof; the level fits because the "
                "property quantifies over compositions and the state shared between parent and child allocations.",
        "note": "Reference arithmetic is exact on the floats FRAME holds (Fraction); dyadic layouts must agree exactly, decimal "
                "ones within 1e-9 relative. Layouts have <=10 initial cells (rarely 40) and <=1200 cells after refinement; units "
                "from 1e-7 to 1e12; interruptions land at a seeded fraction of the operation (traced dry run) or at an early line.",
    },
    "C12": {
        "engine": "c02_c12_refine",
        "design_ref": "DESIGN.md 4.4",
        "technique": "deterministic simulation: seeded refine-while-needed loops with a stub optimiser between iterations, "
                     "restart from the persisted allocation, abort injection; predicate-vs-operation equivalence, exact cell "
                     "selection/halving/depth model, grid-alignment oracle, bounded-progress (liveness) check per iteration",
        "text": "Same histories as C02 with the decision oracles: must_be_refined(t) iff refine(t) changes the allocation, "
                "exactly the non-empty sub-threshold cells are split into 2^levels halves of the longer side with depth raised, "
                "uniform depth reached, no refinable cell crossed by a boundary line after gridding (1 % sliver rule read "
                "leniently), and every entered iteration of the refine-while-needed loop makes progress. Sampling, not proof.",
        "note": "Fixed cells are exempt from the split/depth clauses because C02 forbids cutting them; loop length is capped "
                "(cells grow geometrically). Exact rational model as for C02.",
    },
    "C07": {
        "engine": "c07_sat",
        "design_ref": "DESIGN.md 4.2",
        "technique": "deterministic simulation: seeded interleaving of SATManager clients sharing the process-wide ROBDD store, "
                     "abort/refusal fault injection, exhaustive model-set comparison against a predicate reference model, "
                     "alone-run comparison in a fresh forked interpreter; ddmin-minimised replay files",
        "text": "Seeded search over histories (which manager posts what, in which order, which encoding is killed midway) in one "
                "interpreter; after every post the projection of the CNF's models on the user variables is compared exhaustively "
                "with a reference model built from the generator's description, and the encoding's projected model set "
                "with the same script run alone in a fresh process. Sampling, not proof: right level because the property "
                "quantifies over histories sharing process-global state, which only an execution-level simulator reaches.",
        "note": "Trusts pysat as SAT oracle (used both by FRAME and, independently instantiated, by the projection); managers "
                "have <=6 user variables so that 2^n assignments can be enumerated; each run executes in a fresh fork of a "
                "zygote that imported FRAME but ran no FRAME operation. Rare large families: 'flood' (store taken to about 2^16 "
                "nodes before 8-30 more managers) and 'bigcnf' (430-470 variables, planted 3-SAT, solve verdict and model only).",
    },
}

ENGINE_FILES = {
    "c07_sat": ("engines/c07_sat.py", ["C07"], "SAT layer histories over the shared ROBDD store"),
    "c02_c12_refine": ("engines/c02_c12_refine.py", ["C02", "C12"], "refine/optimise loop with stub optimiser and persisted allocation"),
    "c19_documents": ("engines/c19_documents.py", ["C19"], "producer/consumer pipeline over the simulated file system"),
    "c20_history": ("engines/c20_history.py", ["C20"], "interleaved unrelated designs vs alone runs"),
    "c14_spectral": ("engines/c14_spectral.py", ["C14"], "spectral placement under simulator-owned randomness"),
    "c13_force": ("engines/c13_force.py", ["C13"], "force relocation in several simulated worlds"),
    "c10_glbfloor": ("engines/c10_glbfloor.py", ["C10"], "glbfloor with the solver process boundary under fault injection"),
}


def main():
    checks = []
    engines = []
    used = set()
    for pid in sorted(CHECKS):
        c = CHECKS[pid]
        if not os.path.exists(os.path.join(HERE, ENGINE_FILES[c["engine"]][0])):
            continue
        used.add(c["engine"])
        checks.append({
            "property_id": pid,
            "quick_cmd": "%s sim/cli.py check %s --tier quick" % (PY, pid),
            "thorough_cmd": "%s sim/cli.py check %s --tier thorough" % (PY, pid),
            "evidence_file": "/verif/evidence/%s.json" % pid,
            "replay_cmd_template": "%s sim/cli.py replay {path}" % PY,
            "engine": c["engine"],
            "level_claimed": {"category": "exploration", "text": c["text"], "design_ref": c["design_ref"]},
            "level_note": c["note"],
            "technique": c["technique"],
        })
    for name in sorted(used):
        path, props, kind = ENGINE_FILES[name]
        engines.append({"name": name, "path": path, "serves_properties": [p for p in props if p in CHECKS],
                        "kind_free_text": kind})
    manifest = {
        "version": 1,
        "setup_cmd": "./setup.sh",
        "hooks": {
            "guard": "FRAME_VERIF_SIM",
            "enable": "no hook exists in /repo: every seam is installed from outside by assigning module attributes inside the "
                      "simulated process (FRAME_VERIF_SIM=1 is exported by the harness for documentation only); the checks "
                      "import /repo's working tree directly (FRAME_REPO overrides the path)",
            "baseline_off_cmd": "cd /repo && /venv/bin/python -m pytest -ra -q -p no:cacheprovider --timeout=900 "
                                "--continue-on-collection-errors",
            "source_commits": [],
            "add_only": True,
        },
        "engines": engines,
        "checks": checks,
        "not_applicable": [{"property_id": k, "reason": v} for k, v in sorted(NOT_APPLICABLE.items())],
        "notes": "Technique family: deterministic simulation with fault injection. FRAME is a single-threaded numerical library; "
                 "the simulator owns the order of operations over process-global state, the file system, randomness, the solver "
                 "process boundary and ambient interpreter nondeterminism. Twelve properties are pure functions of their input "
                 "and are listed as not applicable (DESIGN.md section 2 and 5). Exit codes: 0 held, 1 VIOLATION, 3 HARNESS-ERROR. "
                 "Genuine defects repaired by 'fix:' commits and findings kept as known are in known_findings.json.",
    }
    with open(os.path.join(HERE, "MANIFEST.json"), "w") as f:
        json.dump(manifest, f, indent=1)
        f.write("\n")
    print("MANIFEST.json written: %d checks, %d not applicable" % (len(checks), len(manifest["not_applicable"])))


if __name__ == "__main__":
    main()
