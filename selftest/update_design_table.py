#!/usr/bin/env python3
"""Regenerates the seeded-changes table and the counts of DESIGN.md section 10.6 from /verif/seeded/*/meta.json."""
import glob, json, os, re, subprocess
here = os.path.dirname(os.path.dirname(os.path.abspath(__file__)))
table = subprocess.run(["python3", os.path.join(here, "selftest", "seeded_table.py")], capture_output=True, text=True).stdout
metas = [json.load(open(os.path.join(d, "meta.json"))) for d in sorted(glob.glob(os.path.join(here, "seeded", "*")))]
n = len(metas)
caught = sum(1 for m in metas if m.get("first_result_of_matching_check", "").startswith("caught"))
p = os.path.join(here, "DESIGN.md")
s = open(p).read()
s = re.sub(r"<!-- SEEDED-TABLE-BEGIN -->.*?<!-- SEEDED-TABLE-END -->", "<!-- SEEDED-TABLE-BEGIN -->\n" + table + "<!-- SEEDED-TABLE-END -->", s, flags=re.S)
s = re.sub(r"waves, \d+ changes", "waves, %d changes" % n, s)
pass
s = re.sub(r"\d+ were caught on the first run; \d+ were missed", "%d were caught on the first run; %d were missed" % (caught, n - caught), s)
open(p, "w").write(s)
print(n, caught)
