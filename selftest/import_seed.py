#!/venv/bin/python
"""Confirms a seeded change produced by a sub-agent and, if everything checks out, keeps it as /verif/seeded/<id>/.

  selftest/import_seed.py <source-dir with patch.diff demo.py meta.json> <id>

Confirmed in a scratch worktree of /repo's HEAD (removed afterwards):
  1. demo.py exits 0 on the unmodified tree
  2. the patch applies; the project's test suite still passes with it (46 tests)
  3. demo.py exits non-zero with the patch applied
"""
import json
import os
import shutil
import subprocess
import sys

VERIF = os.path.dirname(os.path.dirname(os.path.abspath(__file__)))
PY = "/venv/bin/python"


def sh(cmd, **kw):
    return subprocess.run(cmd, capture_output=True, text=True, **kw)


def main(argv):
    src, sid = argv[1], argv[2]
    wt = "/tmp/frame-import-%s-%d" % (sid, os.getpid())
    sh(["git", "-C", "/repo", "worktree", "add", "-q", "--detach", wt, "HEAD"])
    ran = {}
    try:
        env = dict(os.environ, PYTHONPATH=wt)
        env.pop("PYTHONHASHSEED", None)
        r = sh([PY, os.path.join(src, "demo.py")], env=env, cwd=wt, timeout=600)
        ran["demo_without_change_exit"] = r.returncode
        a = sh(["git", "-C", wt, "apply", os.path.join(src, "patch.diff")])
        ran["patch_applies"] = a.returncode == 0
        if a.returncode != 0:
            print("patch does not apply:", a.stderr[:300])
            return 1
        t = sh([PY, "-m", "pytest", "-q", "-p", "no:cacheprovider", "tests"], env=env, cwd=wt, timeout=900)
        ran["tests_with_change"] = t.stdout.strip().splitlines()[-1] if t.stdout.strip() else "no output"
        ran["tests_with_change_exit"] = t.returncode
        r2 = sh([PY, os.path.join(src, "demo.py")], env=env, cwd=wt, timeout=600)
        ran["demo_with_change_exit"] = r2.returncode
        ran["demo_with_change_output"] = (r2.stdout + r2.stderr)[-300:]
        ok = ran["demo_without_change_exit"] == 0 and t.returncode == 0 and "46 passed" in ran["tests_with_change"] and r2.returncode != 0
        print(json.dumps(ran, indent=1))
        if not ok:
            print("NOT CONFIRMED")
            return 1
        dst = os.path.join(VERIF, "seeded", sid)
        os.makedirs(dst, exist_ok=True)
        for f in ("patch.diff", "demo.py"):
            shutil.copy(os.path.join(src, f), os.path.join(dst, f))
        meta = json.load(open(os.path.join(src, "meta.json")))
        meta["id"] = sid
        meta["confirmed_by_main_session"] = {
            "tree": sh(["git", "-C", "/repo", "rev-parse", "--short", "HEAD"]).stdout.strip(),
            "ran": ["PYTHONPATH=<worktree> /venv/bin/python demo.py  (unmodified tree): exit %d" % ran["demo_without_change_exit"],
                    "git apply patch.diff; PYTHONPATH=<worktree> /venv/bin/python -m pytest -q -p no:cacheprovider tests: %s" % ran["tests_with_change"],
                    "PYTHONPATH=<worktree> /venv/bin/python demo.py  (with the change): exit %d" % ran["demo_with_change_exit"]],
        }
        json.dump(meta, open(os.path.join(dst, "meta.json"), "w"), indent=1)
        print("CONFIRMED and kept as", dst)
        return 0
    finally:
        sh(["git", "-C", "/repo", "worktree", "remove", "--force", wt])
        shutil.rmtree(wt, ignore_errors=True)


if __name__ == "__main__":
    sys.exit(main(sys.argv))
