#!/venv/bin/python
"""Neutrality self-test: behaviour-preserving refactorings (written by independent sub-agents, kept under
/verif/neutral/<id>/patch.diff) must NOT raise an alarm.  Each patch is applied to a scratch worktree of /repo's HEAD and
the quick checks named in its meta.json are run with FRAME_REPO pointing there; exit 0 is required.

  selftest/neutrality.py [id ...]
"""
import json
import os
import shutil
import subprocess
import sys
import time

VERIF = os.path.dirname(os.path.dirname(os.path.abspath(__file__)))
ROOT = os.path.join(VERIF, "neutral")
PY = "/venv/bin/python"


def sh(cmd, **kw):
    return subprocess.run(cmd, capture_output=True, text=True, **kw)


def main(argv):
    ids = argv[1:] or sorted(d for d in os.listdir(ROOT) if os.path.isdir(os.path.join(ROOT, d)))
    bad = 0
    for nid in ids:
        d = os.path.join(ROOT, nid)
        meta = json.load(open(os.path.join(d, "meta.json")))
        wt = "/tmp/frame-neutral-%s-%d" % (nid, os.getpid())
        sh(["git", "-C", "/repo", "worktree", "add", "-q", "--detach", wt, "HEAD"])
        try:
            r = sh(["git", "-C", wt, "apply", os.path.join(d, "patch.diff")])
            if r.returncode != 0:
                print("%s: patch does not apply: %s" % (nid, r.stderr[:200]))
                bad += 1
                continue
            t = sh([PY, "-m", "pytest", "-q", "-p", "no:cacheprovider", "tests"], env=dict(os.environ, PYTHONPATH=wt), cwd=wt)
            print("%s: suite: %s" % (nid, (t.stdout.strip().splitlines() or ["?"])[-1]))
            for prop in meta["checks"]:
                env = dict(os.environ, FRAME_REPO=wt)
                if prop != "C13":
                    env["VERIF_NO_FRESH"] = "1"
                env.pop("PYTHONHASHSEED", None)
                t0 = time.time()
                r = sh([PY, os.path.join(VERIF, "sim", "cli.py"), "check", prop, "--tier", "quick"], env=env, cwd=VERIF)
                ok = r.returncode == 0
                print("%s: check %s -> exit %d in %.0fs %s" % (nid, prop, r.returncode, time.time() - t0, "" if ok else "  <-- ALARM"))
                if not ok:
                    bad += 1
                    for ln in r.stdout.splitlines():
                        if ln.startswith(("violation", "VIOLATION", "HARNESS")):
                            print("     " + ln[:600])
        finally:
            sh(["git", "-C", "/repo", "worktree", "remove", "--force", wt])
            shutil.rmtree(wt, ignore_errors=True)
    print("neutral changes that raised an alarm: %d" % bad)
    return 1 if bad else 0


if __name__ == "__main__":
    sys.exit(main(sys.argv))
