#!/venv/bin/python
"""Sensitivity self-test: for every seeded change under /verif/seeded/<id>/ create a scratch worktree of /repo's HEAD
outside /repo and /verif, apply patch.diff there, run the quick check of the property it breaks with FRAME_REPO pointing
at the worktree, and expect exit 1 with a VIOLATION line whose replay file reproduces.  The worktree is removed
afterwards.  /repo itself is never modified.

  selftest/sensitivity.py [id ...]        (default: all)
"""
import json
import os
import shutil
import subprocess
import sys
import time

VERIF = os.path.dirname(os.path.dirname(os.path.abspath(__file__)))
SEEDED = os.path.join(VERIF, "seeded")
PY = "/venv/bin/python"


def sh(cmd, **kw):
    return subprocess.run(cmd, capture_output=True, text=True, **kw)


def main(argv):
    ids = argv[1:] or sorted(d for d in os.listdir(SEEDED) if os.path.isdir(os.path.join(SEEDED, d)))
    scratch_root = os.environ.get("VERIF_SCRATCH", "/tmp")
    results = []
    for sid in ids:
        d = os.path.join(SEEDED, sid)
        meta = json.load(open(os.path.join(d, "meta.json")))
        props = meta.get("checks") or [meta["property"]]
        wt = os.path.join(scratch_root, "frame-sens-%s-%d" % (sid, os.getpid()))
        sh(["git", "-C", "/repo", "worktree", "remove", "--force", wt])
        r = sh(["git", "-C", "/repo", "worktree", "add", "-q", "--detach", wt, "HEAD"])
        if r.returncode != 0:
            print("%s: cannot create worktree: %s" % (sid, r.stderr))
            results.append((sid, "error"))
            continue
        try:
            r = sh(["git", "-C", wt, "apply", os.path.join(d, "patch.diff")])
            if r.returncode != 0:
                print("%s: patch does not apply: %s" % (sid, r.stderr[:300]))
                results.append((sid, "patch-does-not-apply"))
                continue
            caught_by = []
            for prop in props:
                env = dict(os.environ, FRAME_REPO=wt)
                if prop != "C13":   # C13's worlds under other hash seeds are part of the check, not of the harness self-test
                    env["VERIF_NO_FRESH"] = "1"
                env.pop("PYTHONHASHSEED", None)
                env.setdefault("VERIF_SHRINK_WALL_S", "300")
                t0 = time.time()
                tier = os.environ.get("SENS_TIER", "quick")
                r = sh([PY, os.path.join(VERIF, "sim", "cli.py"), "check", prop, "--tier", tier], env=env, cwd=VERIF)
                dt = time.time() - t0
                vio = [ln for ln in r.stdout.splitlines() if ln.startswith("VIOLATION ")]
                first = next((ln for ln in r.stdout.splitlines() if ln.startswith("violation: ")), "")
                status = "caught" if (r.returncode == 1 and vio) else ("harness-error" if r.returncode == 3 else "missed")
                replay_ok = None
                if status == "caught":
                    path = vio[0].split("replay=")[1].strip()
                    rr = sh([PY, os.path.join(VERIF, "sim", "cli.py"), "replay", path], env=env, cwd=VERIF)
                    replay_ok = rr.returncode == 1
                    caught_by.append(prop)
                print("%s: check %s -> %s in %.0fs (exit %d, replay reproduces: %s) %s" % (
                    sid, prop, status, dt, r.returncode, replay_ok, first[:200]))
                if status == "harness-error":
                    print(r.stdout[-800:])
            results.append((sid, "caught by " + ",".join(caught_by) if caught_by else "missed"))
        finally:
            sh(["git", "-C", "/repo", "worktree", "remove", "--force", wt])
            shutil.rmtree(wt, ignore_errors=True)
    print("\nSUMMARY")
    for sid, res in results:
        print("  %-28s %s" % (sid, res))
    return 0 if all(r.startswith("caught") for _, r in results) else 1


if __name__ == "__main__":
    sys.exit(main(sys.argv))
