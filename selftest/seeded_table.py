#!/usr/bin/env python3
"""Prints the markdown table of seeded changes (DESIGN.md 10.6) from /verif/seeded/*/meta.json."""
import glob, json, os
here = os.path.dirname(os.path.dirname(os.path.abspath(__file__)))
print("| id | what the change does | needs | first run | strengthening it prompted |")
print("|----|----------------------|-------|-----------|---------------------------|")
for d in sorted(glob.glob(os.path.join(here, "seeded", "*"))):
    m = json.load(open(os.path.join(d, "meta.json")))
    def cut(s, n): 
        s = " ".join(str(s).split()); return s if len(s) <= n else s[:n-3] + "..."
    print("| %s | %s | %s | %s | %s |" % (os.path.basename(d), cut(m.get("summary",""), 230), cut(m.get("needs",""), 200),
          m.get("first_result_of_matching_check","?"),
          (m.get("strengthening_prompted","") or "-") + ("" if str(m.get("final_result","")).startswith("caught by %s (quick" % m.get("property"))
                                                           else "  **Final: " + cut(m.get("final_result",""), 400) + "**")))
