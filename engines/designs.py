"""Seeded generators of designs (dies, netlists, allocations) as plain YAML trees.

All geometry is drawn on an integer lattice and then mapped to floats by a
coordinate family:
  dyadic   - lattice unit is a power of two: every coordinate, half-width and
             repeated halving is exact in binary floating point
  decimal  - lattice unit is 0.1 * scale: coordinates are what a YAML reader
             produces for decimal literals (not exactly representable)
  thirds   - lattice unit is scale / 3
The harness keeps the integer description, so it can compute exact references.
"""
from fractions import Fraction

FAMILIES = ("dyadic", "decimal", "thirds")


class Coords:
    def __init__(self, family: str, scale_exp: int = 0):
        """scale_exp: the design is scaled by 10**scale_exp (decimal/thirds) or 2**(3*scale_exp) (dyadic)."""
        self.family = family
        self.scale_exp = scale_exp
        if family == "dyadic":
            self.unit = Fraction(2) ** (3 * scale_exp - 2)          # 1/4 at scale 0
        elif family == "decimal":
            self.unit = Fraction(10) ** scale_exp / 10 * 3           # 0.3 at scale 0
        elif family == "thirds":
            self.unit = Fraction(10) ** scale_exp / 3
        else:
            raise ValueError(family)

    def q(self, i) -> Fraction:
        return self.unit * i

    def f(self, i) -> float:
        return float(self.unit * i)

    def rect(self, box, region=None):
        """box = (x0, y0, x1, y1) on the lattice -> [cx, cy, w, h(, region)] as floats."""
        x0, y0, x1, y1 = box
        out = [float(self.unit * Fraction(x0 + x1, 2)), float(self.unit * Fraction(y0 + y1, 2)),
               float(self.unit * (x1 - x0)), float(self.unit * (y1 - y0))]
        if region is not None:
            out.append(region)
        return out


def guillotine(r, box, ncells: int, min_side: int = 1):
    """Recursive guillotine partition of an integer box into about ncells boxes."""
    boxes = [box]
    guard = 0
    while len(boxes) < ncells and guard < 10 * ncells:
        guard += 1
        # prefer large boxes
        boxes.sort(key=lambda b: -((b[2] - b[0]) * (b[3] - b[1])))
        k = r.below(min(3, len(boxes)))
        x0, y0, x1, y1 = boxes[k]
        w, h = x1 - x0, y1 - y0
        can_x = w >= 2 * min_side
        can_y = h >= 2 * min_side
        if not can_x and not can_y:
            # try another
            cands = [i for i, b in enumerate(boxes) if b[2] - b[0] >= 2 * min_side or b[3] - b[1] >= 2 * min_side]
            if not cands:
                break
            k = r.choice(cands)
            x0, y0, x1, y1 = boxes[k]
            w, h = x1 - x0, y1 - y0
            can_x = w >= 2 * min_side
            can_y = h >= 2 * min_side
        cut_x = can_x and (not can_y or (r.chance(0.5) if w == h else (w > h) != r.chance(0.2)))
        del boxes[k]
        if cut_x:
            c = x0 + r.randint(min_side, w - min_side)
            boxes += [(x0, y0, c, y1), (c, y0, x1, y1)]
        else:
            c = y0 + r.randint(min_side, h - min_side)
            boxes += [(x0, y0, x1, c), (x0, c, x1, y1)]
    boxes.sort()
    return boxes


def overlap_area(a, b):
    w = min(a[2], b[2]) - max(a[0], b[0])
    h = min(a[3], b[3]) - max(a[1], b[1])
    return w * h if w > 0 and h > 0 else 0


MODNAMES = ["M%d" % i for i in range(12)]
# names that contain one another, look like derived names, or differ in case: what real designs have (M1 / M10, cpu / cpu_l2)
TRICKY_NAMES = ["M1", "M10", "M11", "M1_0", "cpu", "cpu_l2", "cpu_0", "A", "AB", "B_", "_x", "M100", "a", "cpu_l2_x", "M1_1", "Ab"]


NAME_FAMILIES = [["M1", "M10", "M11", "M100"], ["M1", "M1_0", "M1_1", "M10"], ["cpu", "cpu_l2", "cpu_0", "cpu_l2_x"],
                 ["A", "AB", "Ab", "a"], ["B_", "_x", "A", "AB"]]


def pick_names(r, n, tricky_p=0.25):
    """n distinct module names: M0..M(n-1), or (now and then) a sample of names related by prefix/substring."""
    if n <= len(TRICKY_NAMES) and r.chance(tricky_p):
        # related names come together: one family first, the rest from anywhere
        fam = list(r.choice(NAME_FAMILIES))
        names = []
        while fam and len(names) < n:
            names.append(fam.pop(r.below(len(fam))))
        rest = [x for x in TRICKY_NAMES if x not in names]
        while len(names) < n:
            names.append(rest.pop(r.below(len(rest))))
        # the order of the modules in the document is not the order of the family
        out = []
        while names:
            out.append(names.pop(r.below(len(names))))
        return out
    return ["M%d" % i for i in range(n)]
REGION_TAGS = ["dsp", "bram", "LUT"]


def gen_ratio(r, kind="any"):
    k = r.below(10)
    if kind == "any":
        if k < 2:
            return r.choice([0.25, 0.5, 0.75, 1.0])
        if k < 4:
            return r.randint(1, 9) / 10
        return round(r.uniform(0.01, 1.0), r.choice([2, 3, 6]))
    raise ValueError(kind)


def gen_allocation(r, family=None, scale_exp=None, max_cells=10, nmods=None, allow_empty=True, allow_fixed=True,
                   allow_depth=True, drop_cells=True, slivers=True, offsets=False, extreme_scales=False):
    """Returns a dict:
      family, scale_exp, nx, ny, cells: [{"box":(x0,y0,x1,y1) lattice, "alloc":{m:ratio}, "depth":d, "fixed":bool}]
    The lattice may be refined locally by 'sliver' offsets: boxes then carry Fractions."""
    family = family or r.weighted([("dyadic", 5), ("decimal", 3), ("thirds", 1)])
    if scale_exp is None:
        # designs come in all units: mostly around 1, sometimes in very small or very large absolute magnitudes
        scale_exp = r.choice([-1, 0, 0, 0, 1, 2]) if not extreme_scales or r.chance(0.82) else r.choice([-7, -5, -3, 4, 6, 9, 9, 12])
    nx, ny = r.randint(2, 12), r.randint(2, 12)
    ncells = r.randint(1, max_cells)
    # most layouts start at the origin; some lie far from it (coordinates large compared with the cells)
    ox, oy = (0, 0)
    if offsets and -1 <= scale_exp <= 2 and r.chance(0.15):
        ox, oy = r.choice([0, 1000, 100000]), r.choice([0, 1000, 100000, 333333])
    boxes = guillotine(r, (ox, oy, ox + nx, oy + ny), ncells)
    if drop_cells and len(boxes) > 2 and r.chance(0.3):
        for _ in range(r.randint(1, max(1, len(boxes) // 3))):
            if len(boxes) > 1:
                del boxes[r.below(len(boxes))]
    nmods = nmods or r.randint(1, 4)
    mods = pick_names(r, nmods)
    cells = []
    for b in boxes:
        alloc = {}
        style = r.below(10)
        if allow_empty and style == 0:
            alloc = {}
        elif style < 4:  # one dominant module
            m = r.choice(mods)
            alloc[m] = r.choice([1.0, 0.95, 0.9, 0.8, 0.75])
            for o in mods:
                if o != m and r.chance(0.4):
                    alloc[o] = round((1 - alloc[m]) * r.random(), 3)
        else:
            for m in mods:
                if r.chance(0.6):
                    alloc[m] = gen_ratio(r)
        depth = 0
        if allow_depth and r.chance(0.35):
            depth = r.randint(0, 3) if r.chance(0.97) else r.randint(100, 140)   # rarely a very deep recorded depth
        cells.append({"box": b, "alloc": alloc, "depth": depth, "fixed": False})
    if allow_fixed and r.chance(0.35):
        c = r.choice(cells)
        c["fixed"] = True
        c["alloc"] = {"FX": 1.0}
    # every module must have positive total area (the constructor divides by it)
    used = {m for c in cells for m, v in c["alloc"].items() if v > 0}
    for c in cells:
        for m in list(c["alloc"]):
            if c["alloc"][m] <= 0:
                del c["alloc"][m]
    # explicit zero entries are valid as long as the module has area somewhere (include_area_zero produces them)
    if r.chance(0.15):
        for c in cells:
            if not c["fixed"]:
                for m in mods:
                    if m not in c["alloc"] and m in used and r.chance(0.3):
                        c["alloc"][m] = 0.0
    for m in mods:
        if m not in used:
            free = [c for c in cells if not c["fixed"]]
            if free:
                r.choice(free)["alloc"][m] = gen_ratio(r)
    # slivers: shift one inner boundary of one cell by a tiny amount so that the 1 % rule matters
    # (1/16 and 1/32 of a lattice unit are not slivers for a thin neighbour: near-aligned boundaries that must both be cut)
    if slivers and len(cells) >= 2 and r.chance(0.3 if scale_exp < 6 else 0.7):
        for _ in range(r.weighted([(1, 5), (2, 3), (3, 2)])):
            c = r.choice(cells)
            x0, y0, x1, y1 = c["box"]
            d = Fraction(1, r.choice([16, 32, 64, 64, 128, 256, 1024]))
            side = r.below(4)
            if side == 0:
                c["box"] = (x0 + d, y0, x1, y1)
            elif side == 1:
                c["box"] = (x0, y0, x1 - d, y1)
            elif side == 2:
                c["box"] = (x0, y0 + d, x1, y1)
            else:
                c["box"] = (x0, y0, x1, y1 - d)
    return {"family": family, "scale_exp": scale_exp, "nx": nx, "ny": ny, "cells": cells}


def alloc_tree(desc):
    """YAML tree of an allocation description."""
    co = Coords(desc["family"], desc["scale_exp"])
    tree = []
    for c in desc["cells"]:
        item = [co.rect(c["box"]), dict(c["alloc"])]
        if c["depth"] > 0:
            item.append(c["depth"])
        tree.append(item)
    return tree


# --------------------------------------------------------------------------- dies and netlists
def gen_die(r, family=None, scale_exp=None, max_regions=3, allow_special=True):
    """Die description on the lattice: {"family","scale_exp","nx","ny","regions":[{"box","tag"}]}."""
    family = family or r.weighted([("dyadic", 4), ("decimal", 3), ("thirds", 1)])
    scale_exp = r.choice([-1, 0, 0, 0, 1, 2]) if scale_exp is None else scale_exp
    nx, ny = r.randint(4, 16), r.randint(4, 16)
    regions = []
    nreg = r.randint(0, max_regions) if r.chance(0.7) else 0
    if nreg:
        boxes = guillotine(r, (0, 0, nx, ny), r.randint(nreg + 1, nreg + 5))
        picks = r.sample(boxes, min(nreg, len(boxes) - 1))
        for b in picks:
            # shrink the box sometimes so that it does not touch its neighbours
            x0, y0, x1, y1 = b
            if r.chance(0.4) and x1 - x0 >= 3:
                x0 += 1
            if r.chance(0.4) and y1 - y0 >= 3:
                y1 -= 1
            tag = "#" if (not allow_special or r.chance(0.6)) else r.choice(REGION_TAGS)
            regions.append({"box": (x0, y0, x1, y1), "tag": tag})
    return {"family": family, "scale_exp": scale_exp, "nx": nx, "ny": ny, "regions": regions}


def die_tree(desc):
    co = Coords(desc["family"], desc["scale_exp"])
    tree = {"width": co.f(desc["nx"]), "height": co.f(desc["ny"])}
    if desc["regions"]:
        tree["regions"] = [co.rect(g["box"], g["tag"]) for g in desc["regions"]]
    return tree


def free_boxes(die, r, n, max_w=4, max_h=4, avoid=None):
    """n pairwise disjoint lattice boxes inside the die that avoid its regions (and 'avoid')."""
    taken = [g["box"] for g in die["regions"]] + list(avoid or [])
    out = []
    for _ in range(60):
        if len(out) >= n:
            break
        w, h = r.randint(1, min(max_w, die["nx"])), r.randint(1, min(max_h, die["ny"]))
        x0, y0 = r.randint(0, die["nx"] - w), r.randint(0, die["ny"] - h)
        b = (x0, y0, x0 + w, y0 + h)
        if all(overlap_area(b, t) == 0 for t in taken):
            out.append(b)
            taken.append(b)
    return out


def stog_boxes(r, trunk):
    """A single-trunk orthogon on the lattice: the trunk box plus 0-3 branch boxes abutting its sides.
    Lattice coordinates are doubled inside (so that branches can be placed on half units) - the caller
    passes a trunk already in the final lattice."""
    x0, y0, x1, y1 = trunk
    out = [trunk]
    sides = ["N", "S", "E", "W"]
    r.shuffle(sides)
    for s in sides[: r.randint(0, 3)]:
        if s in ("N", "S"):
            if x1 - x0 < 1:
                continue
            a = r.randint(x0, x1 - 1)
            b = r.randint(a + 1, x1)
            h = r.randint(1, 2)
            out.append((a, y1, b, y1 + h) if s == "N" else (a, y0 - h, b, y0))
        else:
            if y1 - y0 < 1:
                continue
            a = r.randint(y0, y1 - 1)
            b = r.randint(a + 1, y1)
            w = r.randint(1, 2)
            out.append((x1, a, x1 + w, b) if s == "E" else (x0 - w, a, x0, b))
    return out


def gen_netlist(r, die, nmods=None, kinds=None, allow_terminals=True, need_centers=True, allow_regions=True,
                connected=False, min_movable=0):
    """Netlist description for a die description.  Returns
      {"modules":[{"name","kind":soft|hard|fixed|terminal,"area":..,"center":(ix,iy) lattice x2,
                   "boxes":[...], "aspect":.., "flip":bool}], "nets":[{"mods":[names],"w":weight}]}
    Lattice boxes of hard/fixed modules lie inside the die; fixed ones avoid regions and each other."""
    nmods = nmods or r.randint(2, 7)
    kinds = kinds or ["soft", "soft", "soft", "hard", "fixed", "terminal"]
    mods = []
    fixed_taken = []
    modnames = pick_names(r, nmods)
    for i in range(nmods):
        kind = r.choice(kinds)
        if i < min_movable:
            kind = r.choice([k for k in kinds if k in ("soft", "hard")] or ["soft"])
        if kind == "terminal" and not allow_terminals:
            kind = "soft"
        m = {"name": modnames[i], "kind": kind}
        if kind == "soft":
            a = r.randint(1, max(1, die["nx"] * die["ny"] // (nmods + 1)))
            m["area"] = a  # in lattice units^2
            if allow_regions and r.chance(0.12):
                m["area_regions"] = {"dsp": max(1, a // 3), "LUT": max(1, a - a // 3)}
            if need_centers or r.chance(0.7):
                m["center"] = (r.randint(1, 2 * die["nx"] - 1), r.randint(1, 2 * die["ny"] - 1))  # half units
            if r.chance(0.3):
                m["aspect"] = r.choice([0.5, 2, [0.25, 3.0], [1.0, 1.0], 0.3])
            if r.chance(0.25):
                bs = free_boxes(die, r, 1, avoid=[])
                if bs:
                    m["boxes"] = stog_boxes(r, bs[0]) if r.chance(0.5) else bs
                    m["boxes"] = [b for b in m["boxes"] if b[0] >= 0 and b[1] >= 0]
        elif kind == "hard":
            bs = free_boxes(die, r, 1, max_w=3, max_h=3)
            if not bs:
                m["kind"] = "soft"
                m["area"] = 1
                m["center"] = (die["nx"], die["ny"])
            else:
                boxes = stog_boxes(r, bs[0]) if r.chance(0.6) else bs
                boxes = [b for b in boxes if b[0] >= 0 and b[1] >= 0 and b[2] <= die["nx"] and b[3] <= die["ny"]]
                m["boxes"] = boxes
                m["flip"] = r.chance(0.3)
        elif kind == "fixed":
            bs = free_boxes(die, r, 1, max_w=3, max_h=3, avoid=fixed_taken)
            if not bs:
                m["kind"] = "soft"
                m["area"] = 1
                m["center"] = (die["nx"], die["ny"])
            else:
                boxes = bs
                if r.chance(0.4):
                    cand = stog_boxes(r, bs[0])
                    ok = all(b[0] >= 0 and b[1] >= 0 and b[2] <= die["nx"] and b[3] <= die["ny"] for b in cand) and \
                        all(overlap_area(b, t) == 0 for b in cand[1:] for t in
                            fixed_taken + [g["box"] for g in die["regions"]])
                    if ok:
                        boxes = cand
                m["boxes"] = boxes
                fixed_taken += boxes
        else:  # terminal
            if r.chance(0.8):
                m["center"] = (r.choice([0, 2 * die["nx"], r.randint(0, 2 * die["nx"])]),
                               r.choice([0, 2 * die["ny"], r.randint(0, 2 * die["ny"])]))
                m["fixed_terminal"] = r.chance(0.3)
        mods.append(m)
    names = [m["name"] for m in mods]
    nets = []
    if len(names) >= 2:
        if connected:
            order = list(names)
            r.shuffle(order)
            for a, b in zip(order, order[1:]):
                nets.append({"mods": [a, b], "w": _gen_weight(r)})
        for _ in range(r.randint(0 if connected else 1, nmods + 1)):
            k = min(len(names), r.weighted([(2, 6), (3, 3), (4, 1)]))
            nets.append({"mods": r.sample(names, k), "w": _gen_weight(r)})
    return {"modules": mods, "nets": nets}


def _gen_weight(r):
    return r.weighted([(1, 4), (2, 2), (0.5, 1), (2.5, 1), (10, 1), (1.0, 1)])


def netlist_tree(nl, die):
    co = Coords(die["family"], die["scale_exp"])
    u2 = co.unit * co.unit
    mods = {}
    for m in nl["modules"]:
        info = {}
        k = m["kind"]
        if k == "soft":
            if "area_regions" in m:
                info["area"] = {reg: float(u2 * a) for reg, a in m["area_regions"].items()}
            else:
                info["area"] = float(u2 * m["area"])
            if "center" in m:
                info["center"] = [float(co.unit * Fraction(m["center"][0], 2)), float(co.unit * Fraction(m["center"][1], 2))]
            if "aspect" in m:
                info["aspect_ratio"] = m["aspect"]
            if m.get("boxes"):
                info["rectangles"] = [co.rect(b) for b in m["boxes"]]
        elif k == "hard":
            info["hard"] = True
            info["rectangles"] = [co.rect(b) for b in m["boxes"]]
            if m.get("flip"):
                info["flip"] = True
        elif k == "fixed":
            info["fixed"] = True
            info["rectangles"] = [co.rect(b) for b in m["boxes"]]
        else:
            info["terminal"] = True
            if "center" in m:
                info["center"] = [float(co.unit * Fraction(m["center"][0], 2)), float(co.unit * Fraction(m["center"][1], 2))]
                if m.get("fixed_terminal"):
                    info["fixed"] = True
        mods[m["name"]] = info
    nets = []
    for e in nl["nets"]:
        item = list(e["mods"])
        if e["w"] != 1:
            item.append(e["w"])
        nets.append(item)
    return {"Modules": mods, "Nets": nets}
