"""C07 - SAT layer: every posted constraint is encoded exactly, whatever was
encoded earlier in the process.

System under simulation: 1-3 SATManager clients in ONE interpreter sharing the
process-wide ROBDD store (pseudobool.memory / mmap).  The simulator decides the
interleaving of their posts, injects refusals (constraints the layer cannot
encode) and aborts (an encoding killed at a seeded line event, the manager is then
discarded and the store it leaves behind is what the others must survive).

Reference model: per manager, the accepted constraints as predicates over 0/1
assignments, evaluated from the *generator's* description (never from FRAME's
normal form).  Oracles after every post and at solve: exactness of the model set
projected on the user variables, refusal-not-drop, solve/value/evalexpr, and
independence of the encoding's meaning (its model set on the user variables) from the history,
against the same script run alone in a fresh child.
"""
import itertools
import json
import os

from sim import abort as abortmod
from sim import forkpool
from sim.digest import digest, canon

STREAM = "c07"
RUN_TIMEOUT_S = 120.0
TIERS = {
    "quick": {"runs": 6000, "wall_s": 150, "batch": 1000, "det_same": 24, "det_fresh": 3},
    "thorough": {"runs": 120000, "wall_s": 1500, "batch": 4000, "det_same": 64, "det_fresh": 6},
}
RULE = ("Each run is a seeded history: 1-3 SATManager clients (<=6 user variables each, names shared between "
        "clients so that decision-diagram nodes are found in the process-wide store under other indices) whose "
        "posts (clause, imply, pairwise AMO, chained AMO with k in 2..6 and group sizes 0..9, pseudo-Boolean "
        "inequalities built through the library's operator algebra from random expression trees with all five "
        "comparison operators and both ROBDD constructions, solve) are interleaved by the seeded scheduler; faults: "
        "refuse (unencodable constraint), abort (encoding killed at a seeded line event). Rare large families: 'flood' "
        "(a few managers, then unrelated encodings that take the process-wide diagram store to about 2^14..2^16 nodes, then "
        "8-30 more small managers, every post checked as usual) and 'bigcnf' (430-470 variables, planted 3-literal clauses "
        "at ratio 4.22-4.28: solve must report satisfiable and expose a model of every clause). A run is non-trivial if "
        ">=2 constraints were accepted; distinct = distinct BLAKE2 signature of the sequence of "
        "(client, operation kind, comparison operator, outcome, fault kind).")
COMPONENTS = {
    "real": ["tools.rect.satmanager.SATManager (all of it)", "tools.rect.pseudobool (Literal/Term/Expr/Ineq, ROBDD store)",
             "pysat.solvers.Solver (C extension, deterministic black box)"],
    "stub": [],
    "simulator": ["seeded scheduler over manager clients", "abort injector (sys.settrace)",
                  "independent pysat instance for model-set projection"],
}
ASSUMPTIONS = [
    "user variables are created with SATManager.newvar and do not collide with the layer's reserved prefixes robdd_/aux_",
    "coefficients and bounds are Python ints (the layer truncates floats by int())",
    "model sets are compared exhaustively over <=2^6 assignments of the user variables, so managers are kept small",
    "refusing '>', '<' and '=' constraints that are not clauses is accepted behaviour (the statement allows refusal); "
    "refusing a '>=' or '<=' inequality, a clause, an implication or an at-most-one group with k>=3 is a violation",
]

CMPS = [">=", "<=", ">", "<", "="]


# --------------------------------------------------------------------------- generator
def _gen_lit(r, nvars):
    return [r.below(nvars), 1 if r.chance(0.6) else 0]


def _gen_leaf(r, nvars, cmax):
    k = r.below(10)
    if k < 3:
        return ["lit"] + _gen_lit(r, nvars)
    if k < 8:
        v, s = _gen_lit(r, nvars)
        c = r.randint(-cmax, cmax) if r.chance(0.8) else r.choice([0, 1, -1, cmax, -cmax])
        return ["term", v, s, c]
    return ["const", r.randint(-cmax, cmax)]


def _gen_tree(r, nvars, depth, cmax):
    if depth <= 0 or r.chance(0.3):
        return _gen_leaf(r, nvars, cmax)
    k = r.below(10)
    if k < 5:
        return ["add", _gen_tree(r, nvars, depth - 1, cmax), _gen_tree(r, nvars, depth - 1, cmax)]
    if k < 8:
        return ["sub", _gen_tree(r, nvars, depth - 1, cmax), _gen_tree(r, nvars, depth - 1, cmax)]
    return ["mul", _gen_tree(r, nvars, depth - 1, cmax), r.choice([-3, -2, -1, 0, 1, 2, 3])]


def _gen_sum(r, nvars, cmax):
    """A flat weighted sum: the common shape in rect.py."""
    n = r.randint(1, 8)
    t = None
    for _ in range(n):
        v, s = _gen_lit(r, nvars)
        leaf = ["term", v, s, r.randint(1, cmax) if r.chance(0.85) else r.randint(-cmax, cmax)]
        t = leaf if t is None else ["add", t, leaf]
    return t


def _gen_huge_pb(r, nvars):
    """Few terms with coefficients around a large power of two (the decision diagram stays tiny, the arithmetic does not)."""
    k = r.randint(20, 62)
    def coef():
        return (1 << k) + r.choice([-1, 0, 1]) if r.chance(0.7) else r.randint(1, 1 << k)
    n = r.randint(2, min(4, nvars + 1))
    t = None
    for _ in range(n):
        v, s_ = _gen_lit(r, nvars)
        leaf = ["term", v, s_, coef()]
        t = leaf if t is None else ["add", t, leaf]
    bound = coef() + r.choice([0, 1, (1 << k) // 2])
    return {"op": "pb", "lhs": t, "rhs": ["const", bound], "cmp": r.choice([">=", "<="]), "cd": r.chance(0.7), "style": r.below(4)}


def _gen_pb(r, nvars):
    if r.chance(0.06):
        return _gen_huge_pb(r, nvars)
    cmax = r.choice([1, 2, 3, 5, 9])
    if r.chance(0.5):
        lhs = _gen_sum(r, nvars, cmax)
        hi = sum(abs(x) for x in _coefs(lhs))
        rhs = ["const", r.randint(-1, max(1, hi + 1))]
    else:
        lhs = _gen_tree(r, nvars, r.randint(1, 3), cmax)
        rhs = _gen_tree(r, nvars, r.randint(0, 2), cmax) if r.chance(0.5) else ["const", r.randint(-cmax, 2 * cmax)]
    cmp_ = r.weighted([(">=", 4), ("<=", 4), (">", 1.2), ("<", 1.2), ("=", 0.8)])
    return {"op": "pb", "lhs": lhs, "rhs": rhs, "cmp": cmp_, "cd": r.chance(0.4), "style": r.below(4)}


def _coefs(t):
    if t[0] == "term":
        return [t[3]]
    if t[0] == "lit":
        return [1]
    if t[0] == "const":
        return []
    if t[0] == "mul":
        return [c * t[2] for c in _coefs(t[1])]
    return _coefs(t[1]) + _coefs(t[2])


def _gen_post_raw(r, nvars, pool):
    k = r.below(100)
    if k < 10:
        return {"op": "clause", "lits": [_gen_lit(r, nvars) for _ in range(r.randint(0, 4))]}
    if k < 18:
        return {"op": "imply", "lhs": [_gen_lit(r, nvars) for _ in range(r.randint(0, 3))], "rhs": _gen_lit(r, nvars)}
    if k < 26:
        return {"op": "amo_quad", "lits": [_gen_lit(r, nvars) for _ in range(r.randint(0, 6))]}
    if k < 40:
        return {"op": "amo_heule", "lits": [_gen_lit(r, nvars) for _ in range(r.randint(0, 9))],
                "k": r.weighted([(2, 1), (3, 5), (4, 3), (5, 2), (6, 1)])}
    if k < 50:
        if r.chance(0.3):
            # a query under assumptions, the way callers do it with this layer: push unit clauses, solve, pop them
            return {"op": "solve", "assume": [_gen_lit(r, nvars) for _ in range(r.randint(1, 2))]}
        return {"op": "solve"}
    # pseudo-Boolean: from the shared pool (same constraint posted to several managers) or fresh
    if pool and r.chance(0.45):
        p = dict(r.choice(pool))
        if r.chance(0.3):
            p["cd"] = not p["cd"]
        return p
    p = _gen_pb(r, nvars)
    pool.append(p)
    return p


def _gen_post(r, nvars, pool, planted):
    """Most constraints are steered to hold under a planted assignment, so that managers stay
    satisfiable and later posts are checked on non-empty model sets."""
    if planted is None:
        return _gen_post_raw(r, nvars, pool)
    for _ in range(6):
        o = _gen_post_raw(r, nvars, pool)
        if o["op"] == "solve" or _predicate(o)(planted):
            return o
        if o["op"] == "pb" and o["cmp"] != "=":
            # move the bound so that the planted assignment satisfies the inequality
            lv = _ref_eval(o["lhs"], planted)
            slack = r.randint(0, 2)
            strict = 1 if o["cmp"] in (">", "<") else 0
            bound = lv - slack - strict if o["cmp"] in (">=", ">") else lv + slack + strict
            o = dict(o, rhs=["const", bound])
            return o
    return o


def _gen_script(r, nvars, pool, n):
    planted = tuple(r.below(2) for _ in range(nvars)) if r.chance(0.8) else None
    ops = [_gen_post(r, nvars, pool, planted) for _ in range(n)]
    if r.chance(0.7):
        ops.append({"op": "solve"})
    return ops


def _interleave(r, scripts, first_id=0):
    pos = [0] * len(scripts)
    ops = []
    live = [c for c in range(len(scripts)) if scripts[c]]
    while live:
        c = r.choice(live)
        o = dict(scripts[c][pos[c]])
        o["c"] = first_id + c
        ops.append(o)
        pos[c] += 1
        if pos[c] >= len(scripts[c]):
            live.remove(c)
    return ops


def _gen_flood_case(r):
    """A long process history: a few managers, then unrelated encodings that take the process-wide diagram store to (about)
    a power of two of nodes, then many more small managers over the same variable names.  Every post of every manager is
    checked for exactness as usual; only the size of what was encoded before is unusual."""
    nvars = r.randint(3, 6)
    pool = []
    early = [_gen_script(r, nvars, pool, r.randint(8, 16)) for _ in range(r.randint(2, 4))]
    ops = _interleave(r, early, 0)
    nid = len(early)
    power = r.weighted([(16, 8), (15, 1), (14, 1)])
    target = (1 << power) + r.weighted([(0, 4), (-r.randint(1, 40), 3), (r.randint(1, 400), 2), (r.randint(401, 6000), 1)])
    ops.append({"op": "flood", "c": -1, "target": target})
    for _ in range(r.randint(4, 9)):    # waves of 2-4 interleaved managers
        wave = [_gen_script(r, nvars, pool, r.randint(5, 12)) for _ in range(r.randint(2, 4))]
        ops += _interleave(r, wave, nid)
        nid += len(wave)
    return {"engine": "c07", "nvars": nvars, "nclients": nid, "ops": ops, "no_alone": True, "family": "flood",
            "reuse": r.weighted([(None, 3), ("own", 3), ("shared", 4)])}


def _gen_bigcnf_case(r):
    """A large satisfiable clause set (planted assignment, 3-literal clauses at the hardness threshold): the only thing that
    is unusual is the search effort solve() needs."""
    n = r.randint(430, 470)
    ops = [{"op": "bigcnf", "c": -2, "n": n, "m": int(r.choice([4.22, 4.25, 4.25, 4.28]) * n), "seed": r.randint(0, 1 << 30)}]
    nvars = r.randint(2, 4)
    ops += _interleave(r, [_gen_script(r, nvars, [], r.randint(2, 5))], 0)
    return {"engine": "c07", "nvars": nvars, "nclients": 1, "ops": ops, "no_alone": True, "family": "bigcnf", "reuse": None}


def gen_case(r, index, tier):
    deep = tier == "thorough"
    fam = os.environ.get("VERIF_C07_FAMILY") or r.weighted([("ordinary", 0.993), ("flood", 0.004), ("bigcnf", 0.003)])
    if fam == "flood":
        return _gen_flood_case(r)
    if fam == "bigcnf":
        return _gen_bigcnf_case(r)
    nclients = r.weighted([(1, 2), (2, 4), (3, 4)] + ([(4, 2)] if deep else []))
    nvars = r.randint(2, 8 if deep else 6)
    pool = []
    scripts = []
    for c in range(nclients):
        planted = tuple(r.below(2) for _ in range(nvars)) if r.chance(0.8) else None
        n = r.randint(1, 16 if deep else 10)
        ops = [_gen_post(r, nvars, pool, planted) for _ in range(n)]
        if r.chance(0.7):
            ops.append({"op": "solve"})
        scripts.append(ops)
    # seeded interleaving
    pos = [0] * nclients
    ops = []
    live = [c for c in range(nclients) if scripts[c]]
    while live:
        c = r.choice(live)
        o = dict(scripts[c][pos[c]])
        o["c"] = c
        ops.append(o)
        pos[c] += 1
        if pos[c] >= len(scripts[c]):
            live.remove(c)
    # faults: about 35 % of the runs get an abort somewhere
    if r.chance(0.35):
        cands = [i for i, o in enumerate(ops) if o["op"] in ("pb", "amo_heule")]
        solves = [i for i, o in enumerate(ops) if o["op"] == "solve"]
        if solves and r.chance(0.3):
            # an interrupted query: nothing was posted, the caller simply asks again
            i = r.choice(solves)
            ops[i]["fault"] = {"kind": "abort", "line_event": r.randint(1, r.choice([10, 60, 400])), "only": "satmanager.py"}
            ops.insert(i + 1, {k_: v for k_, v in ops[i].items() if k_ != "fault"})
        elif cands:
            i = r.choice(cands)
            hi = r.choice([40, 400, 400, 3000])
            ops[i]["fault"] = {"kind": "abort", "line_event": r.randint(1, hi)}
            if r.chance(0.4):  # land inside the CNF generation rather than the diagram construction
                ops[i]["fault"] = {"kind": "abort", "line_event": r.randint(1, 80), "only": "satmanager.py"}
    # windows: the same left-hand side bounded from both sides (the second constraint reuses the first one's expression)
    for c in range(nclients):
        idx = [i for i, o in enumerate(ops) if o["c"] == c and o["op"] == "pb" and o["cmp"] in (">=", "<=")]
        if idx and r.chance(0.4):
            i = r.choice(idx)
            o = ops[i]
            other = "<=" if o["cmp"] == ">=" else ">="
            lv = r.randint(0, 3)
            w = dict(o, cmp=other)
            if o["rhs"][0] == "const":
                w["rhs"] = ["const", o["rhs"][1] + (lv if other == "<=" else -lv)]
            w.pop("fault", None)
            ops.insert(i + 1, w)
    return {"engine": "c07", "nvars": nvars, "nclients": nclients, "ops": ops,
            "reuse": r.weighted([(None, 3), ("own", 3), ("shared", 4)])}


# --------------------------------------------------------------------------- shrinking interface
def units(case):
    return len(case["ops"])


def restrict(case, keep):
    c = dict(case)
    c["ops"] = [case["ops"][i] for i in keep]
    return c


def _smaller_trees(t):
    if t[0] != "const":
        yield ["const", 0]
    if t[0] in ("add", "sub"):
        yield t[1]
        yield t[2]
        for s in _smaller_trees(t[1]):
            yield [t[0], s, t[2]]
        for s in _smaller_trees(t[2]):
            yield [t[0], t[1], s]
    elif t[0] == "mul":
        yield t[1]
        for s in _smaller_trees(t[1]):
            yield ["mul", s, t[2]]
    elif t[0] == "term":
        if t[3] not in (0, 1):
            yield ["term", t[1], t[2], 1]
        if abs(t[3]) > 1:
            yield ["term", t[1], t[2], t[3] // 2 if t[3] > 0 else -((-t[3]) // 2)]
    elif t[0] == "const":
        if t[1] != 0:
            yield ["const", 0]
            yield ["const", t[1] - 1 if t[1] > 0 else t[1] + 1]


def simplify(case):
    ops = case["ops"]
    for i, o in enumerate(ops):
        if "fault" in o:
            o2 = {k: v for k, v in o.items() if k != "fault"}
            yield dict(case, ops=ops[:i] + [o2] + ops[i + 1:])
    for i, o in enumerate(ops):
        if o["op"] == "pb":
            for side in ("lhs", "rhs"):
                for s in _smaller_trees(o[side]):
                    o2 = dict(o)
                    o2[side] = s
                    yield dict(case, ops=ops[:i] + [o2] + ops[i + 1:])
            if o.get("cd"):
                yield dict(case, ops=ops[:i] + [dict(o, cd=False)] + ops[i + 1:])
            if o.get("style"):
                yield dict(case, ops=ops[:i] + [dict(o, style=0)] + ops[i + 1:])
        elif o["op"] in ("clause", "amo_quad", "amo_heule") and len(o["lits"]) > 0:
            for j in range(len(o["lits"])):
                yield dict(case, ops=ops[:i] + [dict(o, lits=o["lits"][:j] + o["lits"][j + 1:])] + ops[i + 1:])
    if case["nclients"] > 1:
        used = sorted({o["c"] for o in ops})
        if len(used) < case["nclients"]:
            remap = {c: k for k, c in enumerate(used)}
            yield dict(case, nclients=len(used), ops=[dict(o, c=remap[o["c"]]) for o in ops])


# --------------------------------------------------------------------------- the system side
_sat = None
_pb = None
_Solver = None


def setup():
    global _sat, _pb, _Solver
    import tools.rect.satmanager as sat
    import tools.rect.pseudobool as pb
    from pysat.solvers import Solver
    _sat, _pb, _Solver = sat, pb, Solver


def _ref_eval(t, asg):
    k = t[0]
    if k == "lit":
        return asg[t[1]] if t[2] else 1 - asg[t[1]]
    if k == "term":
        return t[3] * (asg[t[1]] if t[2] else 1 - asg[t[1]])
    if k == "const":
        return t[1]
    if k == "add":
        return _ref_eval(t[1], asg) + _ref_eval(t[2], asg)
    if k == "sub":
        return _ref_eval(t[1], asg) - _ref_eval(t[2], asg)
    if k == "mul":
        return _ref_eval(t[1], asg) * t[2]
    raise ValueError(k)


def _ref_cmp(a, cmp_, b):
    return {">=": a >= b, "<=": a <= b, ">": a > b, "<": a < b, "=": a == b}[cmp_]


def _litval(l, asg):
    return asg[l[0]] if l[1] else 1 - asg[l[0]]


def _predicate(o):
    k = o["op"]
    if k == "clause":
        return lambda asg: any(_litval(l, asg) for l in o["lits"])
    if k == "imply":
        return lambda asg: (not all(_litval(l, asg) for l in o["lhs"])) or bool(_litval(o["rhs"], asg))
    if k in ("amo_quad", "amo_heule"):
        return lambda asg: sum(_litval(l, asg) for l in o["lits"]) <= 1
    if k == "pb":
        return lambda asg: _ref_cmp(_ref_eval(o["lhs"], asg), o["cmp"], _ref_eval(o["rhs"], asg))
    raise ValueError(k)


class _Client:
    def __init__(self, cid, nvars):
        self.cid = cid
        self.nvars = nvars
        self.m = _sat.SATManager()
        self.vars = [self.m.newvar("x%d" % i) for i in range(nvars)]
        self.preds = []
        self.dead = False
        self.pb_seen = []
        self.diverged = False  # set once a model-set mismatch was reported for this manager
        self.cache = None
        # independent solver for projection
        self.names = {}
        self.solver = _Solver()
        self.nclauses_fed = 0
        self.has_empty = False
        for v in self.vars:
            self._id(v.v)

    def _id(self, name):
        if name not in self.names:
            self.names[name] = len(self.names) + 1
        return self.names[name]

    def lit(self, l):
        v = self.vars[l[0]]
        return v if l[1] else -v

    def build(self, t, style=0):
        """Builds the library object for an expression tree through the operator algebra.  Always returns an Expr.
        With an expression cache (self.cache, possibly shared by all managers of the run) the object built for a subtree is
        reused wherever the same subtree occurs again - in a later constraint, in the other side of a window, in another
        manager, in evalexpr after a solve: the algebra promises new objects, so reuse must be harmless."""
        if self.cache is None:
            return self._build(t, style)
        key = (json.dumps(t), style)
        if key not in self.cache:
            self.cache[key] = self._build(t, style)
        return self.cache[key]

    def _build(self, t, style=0):
        E = _pb.Expr
        k = t[0]
        if k == "lit":
            return E() + self.lit([t[1], t[2]])
        if k == "term":
            lit = self.lit([t[1], t[2]])
            if style == 0:
                return E() + lit * t[3]
            if style == 1:
                return E() + t[3] * lit
            if style == 2:
                return E() + _pb.Term(lit, t[3])
            return (E() + 0) + (lit * t[3])
        if k == "const":
            return E() + t[1] if style % 2 == 0 else E(t[1])
        if k == "add":
            a = self.build(t[1], style)
            if style in (1, 3) and t[2][0] in ("lit", "term", "const"):
                return a + self.raw(t[2])
            return a + self.build(t[2], style)
        if k == "sub":
            a = self.build(t[1], style)
            if style in (1, 3) and t[2][0] in ("lit", "term", "const"):
                return a - self.raw(t[2])
            return a - self.build(t[2], style)
        if k == "mul":
            a = self.build(t[1], style)
            return a * t[2] if style % 2 == 0 else t[2] * a
        raise ValueError(k)

    def raw(self, t):
        if t[0] == "lit":
            return self.lit([t[1], t[2]])
        if t[0] == "term":
            return _pb.Term(self.lit([t[1], t[2]]), t[3])
        return t[1]

    def feed(self):
        cl = self.m.clauses
        for c in cl[self.nclauses_fed:]:
            ints = [self._id(l.v) if l.s else -self._id(l.v) for l in c]
            if not ints:
                self.has_empty = True
            else:
                self.solver.add_clause(ints)
        self.nclauses_fed = len(cl)

    def projected_models(self):
        """Set of user assignments that extend to a model of the manager's clause list."""
        self.feed()
        out = set()
        if self.has_empty:
            return out
        ids = [self.names[v.v] for v in self.vars]
        for asg in itertools.product((0, 1), repeat=self.nvars):
            if self.solver.solve(assumptions=[i if b else -i for i, b in zip(ids, asg)]):
                out.add(asg)
        return out

    def reference_models(self):
        return {asg for asg in itertools.product((0, 1), repeat=self.nvars) if all(p(asg) for p in self.preds)}

    def canon_clauses(self):
        ren = {}
        out = []
        for c in self.m.clauses:
            cc = []
            for l in c:
                n = l.v
                if n.startswith("robdd_"):
                    if n not in ren:
                        ren[n] = "R%d" % len(ren)
                    n = ren[n]
                cc.append((n, bool(l.s)))
            out.append(cc)
        return out


def _apply(cl, o):
    """Posts operation o to client cl.  Returns outcome string; raises what FRAME raises."""
    m = cl.m
    k = o["op"]
    if k == "clause":
        m.add_clause([cl.lit(l) for l in o["lits"]])
    elif k == "imply":
        m.imply([cl.lit(l) for l in o["lhs"]], cl.lit(o["rhs"]))
    elif k == "amo_quad":
        m.quadraticencoding([cl.lit(l) for l in o["lits"]])
    elif k == "amo_heule":
        m.heuleencoding([cl.lit(l) for l in o["lits"]], o["k"])
    elif k == "pb":
        lhs = cl.build(o["lhs"], o.get("style", 0))
        rhs = cl.build(o["rhs"], o.get("style", 0))
        c = o["cmp"]
        if c == ">=":
            ineq = lhs >= rhs
        elif c == "<=":
            ineq = lhs <= rhs
        elif c == ">":
            ineq = lhs > rhs
        elif c == "<":
            ineq = lhs < rhs
        else:
            ineq = lhs == rhs
        m.pseudoboolencoding(ineq, o["cd"])
    else:
        raise ValueError(k)
    return "accepted"


def _may_refuse(o):
    if o["op"] == "amo_heule" and o["k"] < 3:
        return True
    if o["op"] == "pb" and o["cmp"] in (">", "<", "="):
        return True
    return False


def _must_refuse(o):
    return o["op"] == "amo_heule" and o["k"] < 3


def _simulate(case, only_client=None, collect=None):
    """Executes the history.  Returns dict with violations, history, per-client canonical clause lists."""
    root = os.path.abspath(os.environ.get("FRAME_REPO", "/repo")) + os.sep
    nvars = case["nvars"]
    clients = {}
    viol = []
    hist = []
    probes = {}
    ops_count = {}
    fired = {}
    configured = {}
    accepted_total = 0
    sig = []
    store0 = len(_pb.memory)

    def probe(name, n=1):
        probes[name] = probes.get(name, 0) + n

    per_post_canon = {}
    shared_cache = {}
    for seq, o in enumerate(case["ops"]):
        c = o["c"]
        if only_client is not None and c != only_client:
            continue
        if o["op"] == "flood":
            n0 = len(_pb.memory)
            _flood(o["target"])
            probe("flood_nodes", len(_pb.memory) - n0)
            if len(_pb.memory) >= 65536:
                probe("store_holds_2^16_nodes_or_more")
            ops_count["flood"] = ops_count.get("flood", 0) + 1
            hist.append({"seq": seq, "c": c, "op": "flood", "out": "store %d" % len(_pb.memory)})
            sig.append((c, "flood", "", "done", ""))
            continue
        if o["op"] == "bigcnf":
            out, vv = _bigcnf(o, probe)
            for x in vv:
                viol.append({"property": "C07", "clause": x, "key": {"op": "bigcnf"},
                             "detail": {"seq": seq, "n": o["n"], "m": o["m"], "seed": o["seed"]}})
            ops_count["bigcnf"] = ops_count.get("bigcnf", 0) + 1
            hist.append({"seq": seq, "c": c, "op": "bigcnf", "out": out})
            sig.append((c, "bigcnf", "", out, ""))
            continue
        if c not in clients:
            clients[c] = _Client(c, nvars)
            if case.get("reuse") == "shared":
                clients[c].cache = shared_cache
            elif case.get("reuse") == "own":
                clients[c].cache = {}
        cl = clients[c]
        kind = o["op"]
        if cl.dead:
            hist.append({"seq": seq, "c": c, "op": kind, "out": "skipped(dead client)"})
            continue
        ops_count[kind] = ops_count.get(kind, 0) + 1
        fault = o.get("fault") if only_client is None else None
        key = {"op": kind}
        if kind == "pb":
            key["cmp"] = o["cmp"]
        if kind == "solve":
            assume = o.get("assume") or []
            if assume:
                key["assume"] = True
                ops_count["solve_under_assumptions"] = ops_count.get("solve_under_assumptions", 0) + 1
            npushed = 0
            try:
                for l in assume:
                    cl.m.add_clause([cl.lit(l)])
                    npushed += 1
                if fault is not None:
                    configured["abort"] = configured.get("abort", 0) + 1
                    ab = abortmod.Aborter(root, fault["line_event"], fault.get("only"))
                    st, val = ab.run(cl.m.solve)
                    if st == "aborted":
                        fired["abort"] = fired.get("abort", 0) + 1
                        probe("solve_interrupted")
                        hist.append({"seq": seq, "c": c, "op": kind, "out": "aborted at " + str(val)})
                        sig.append((c, kind, "", "aborted", "abort"))
                        continue
                    res = val
                else:
                    res = cl.m.solve()
            except abortmod.SimAbort:
                raise
            except BaseException as e:  # noqa
                viol.append({"property": "C07", "clause": "solve raised", "key": key,
                             "detail": {"seq": seq, "client": c, "exc": repr(e)}})
                hist.append({"seq": seq, "c": c, "op": kind, "out": "raised " + type(e).__name__})
                sig.append((c, kind, "", "raised", ""))
                continue
            finally:
                if npushed:
                    del cl.m.clauses[-npushed:]
            ref = {a for a in cl.reference_models() if all(_litval(l, a) for l in assume)}
            out = "sat" if res else "unsat"
            if cl.diverged:
                probe("solve_check_skipped_after_reported_divergence")
            elif bool(res) != bool(ref):
                viol.append({"property": "C07", "clause": "solve verdict differs from reference", "key": key,
                             "detail": {"seq": seq, "client": c, "solve": bool(res), "reference_models": len(ref)}})
            elif res:
                asg = []
                bad = False
                for v in cl.vars:
                    val = cl.m.value(v)
                    nval = cl.m.value(-v)
                    if val not in (0, 1) or nval != 1 - val:
                        bad = True
                    asg.append(val)
                if bad or tuple(asg) not in ref:
                    viol.append({"property": "C07", "clause": "exposed model violates a posted constraint", "key": key,
                                 "detail": {"seq": seq, "client": c, "model": asg}})
                else:
                    # evalexpr on every pb expression posted to this client so far
                    for po in cl.pb_seen:
                        try:
                            e = cl.build(po["lhs"], po.get("style", 0))
                            got = cl.m.evalexpr(e)
                        except BaseException as ex:  # noqa
                            got = "raised %r" % (ex,)
                        want = _ref_eval(po["lhs"], asg)
                        if got != want:
                            viol.append({"property": "C07", "clause": "evalexpr differs from direct evaluation",
                                         "key": {"op": "solve"},
                                         "detail": {"seq": seq, "client": c, "model": asg, "got": got, "want": want,
                                                    "expr": po["lhs"]}})
                            break
                        probe("evalexpr_checked")
                probe("solve_sat")
            else:
                probe("solve_unsat")
            hist.append({"seq": seq, "c": c, "op": kind, "out": out})
            sig.append((c, kind, "", out, ""))
            continue

        # ---- a post -------------------------------------------------------------
        before = len(cl.m.clauses)
        store_before = len(_pb.memory)
        outcome = None
        if fault is not None:
            configured["abort"] = configured.get("abort", 0) + 1
            ab = abortmod.Aborter(root, fault["line_event"], fault.get("only"))
            try:
                st, val = ab.run(_apply, cl, o)
            except Exception as e:
                st, val = "raised", e
            if st == "aborted":
                fired["abort"] = fired.get("abort", 0) + 1
                cl.dead = True
                probe("abort_in_" + (val or "?").split(":")[0].strip("/").replace("/", "."))
                if len(_pb.memory) != len(_pb.mmap) + 2:
                    probe("abort_left_store_node_without_index")
                hist.append({"seq": seq, "c": c, "op": kind, "out": "aborted at " + str(val)})
                sig.append((c, kind, o.get("cmp", ""), "aborted", "abort"))
                continue
            outcome = "accepted" if st == "done" else ("refused:" + type(val).__name__)
        else:
            try:
                _apply(cl, o)
                outcome = "accepted"
            except Exception as e:
                outcome = "refused:" + type(e).__name__
        if kind == "pb":
            cl.pb_seen.append(o)
            if len(_pb.memory) == store_before and len(cl.m.clauses) > before + 1:
                probe("store_already_held_every_node")
        if outcome == "accepted":
            if _must_refuse(o):
                viol.append({"property": "C07", "clause": "unencodable constraint accepted", "key": key,
                             "detail": {"seq": seq, "client": c, "op": o}})
            cl.preds.append(_predicate(o))
            accepted_total += 1
        else:
            fired["refuse"] = fired.get("refuse", 0) + 1
            if not _may_refuse(o):
                viol.append({"property": "C07", "clause": "encodable constraint refused", "key": key,
                             "detail": {"seq": seq, "client": c, "op": o, "outcome": outcome}})
        # exactness after every post, accepted or refused
        got = cl.projected_models()
        ref = cl.reference_models()
        if cl.diverged:
            probe("exactness_skipped_after_reported_divergence")
        elif got != ref:
            cl.diverged = True
            spurious = sorted(got - ref)
            missing = sorted(ref - got)
            which = "spurious assignment admitted" if spurious else "satisfying assignment excluded"
            viol.append({"property": "C07", "clause": "model set differs from reference: " + which,
                         "key": dict(key, outcome=outcome.split(":")[0]),
                         "detail": {"seq": seq, "client": c, "op": o, "outcome": outcome,
                                    "spurious": spurious[:4], "missing": missing[:4],
                                    "clauses_added": len(cl.m.clauses) - before}})
        if not ref:
            probe("manager_became_unsat")
        # what an encoding *means* is its model set on the user's variables; the clause list itself (order, numbering and
        # naming of auxiliary variables) is not an answer and may legitimately depend on the diagram store
        per_post_canon.setdefault(c, []).append(digest(sorted(got)))
        hist.append({"seq": seq, "c": c, "op": kind, "cmp": o.get("cmp"), "out": outcome,
                     "models": len(got), "clauses": len(cl.m.clauses)})
        sig.append((c, kind, o.get("cmp", ""), outcome.split(":")[0], ""))

    return {"violations": viol, "history": hist, "probes": probes, "ops": ops_count, "fired": fired,
            "configured": configured, "accepted": accepted_total, "sig": sig,
            "canon": {c: per_post_canon.get(c, []) for c in clients},
            "dead": sorted(c for c, cl in clients.items() if cl.dead),
            "store_growth": len(_pb.memory) - store0}


def _flood(target):
    """Unrelated earlier encodings (own manager, own variable names) until the process-wide store holds `target` nodes:
    'at least half of these 100' (about 2500 diagrams each), then 'all of these k' (k diagrams each)."""
    m = _sat.SATManager()
    E = _pb.Expr
    j = 0

    def total(prefix, k):
        e = E()
        for i in range(k):
            e = e + m.newvar("%s%d_%d" % (prefix, j, i))
        return e

    while len(_pb.memory) + 3000 < target and j < 400:
        m.pseudoboolencoding(total("f", 100) >= 50)
        j += 1
    while len(_pb.memory) < target and j < 4000:
        left = target - len(_pb.memory)
        k = min(left, 150)
        if left - k == 1 and k > 1:
            k -= 1
        before = len(_pb.memory)
        m.pseudoboolencoding(total("g", k) >= k)
        j += 1
        if len(_pb.memory) == before:
            break


BIG_CONFLICTS = 1200000


def _bigcnf(o, probe):
    """Posts a planted 3-literal clause set to a manager of its own and asks solve().  Instances the same solver cannot decide
    within BIG_CONFLICTS conflicts are skipped (so that the run stays bounded), decided by an independent instance first."""
    from sim import rng as rngmod
    r = rngmod.Rng(rngmod.derive(o["seed"], "bigcnf"))
    n, mcl = o["n"], o["m"]
    planted = [r.below(2) for _ in range(n + 1)]
    posted = []
    while len(posted) < mcl:
        vs = sorted({1 + r.below(n) for _ in range(3)})
        if len(vs) < 3:
            continue
        c = [(v, bool(r.below(2))) for v in vs]
        if any(pol == bool(planted[v]) for v, pol in c):
            posted.append(c)
    ind = _Solver()
    for c in posted:
        ind.add_clause([v if pol else -v for v, pol in c])
    ind.conf_budget(BIG_CONFLICTS)
    res0 = ind.solve_limited()
    conflicts = ind.accum_stats().get("conflicts", 0)
    ind.delete()
    if res0 is None:
        probe("bigcnf_skipped_too_hard")
        return "skipped", []
    probe("bigcnf_conflicts_over_100k" if conflicts > 100000 else "bigcnf_conflicts_up_to_100k")
    sm = _sat.SATManager()
    var = [None] + [sm.newvar("v%d" % i) for i in range(1, n + 1)]
    for c in posted:
        sm.add_clause([var[v] if pol else -var[v] for v, pol in c])
    try:
        res = sm.solve()
    except BaseException as e:  # noqa
        return "raised", ["solve raised on a large satisfiable clause set (%s)" % type(e).__name__]
    if not res:
        return "unsat", ["solve reports unsatisfiable although a planted assignment satisfies every posted clause"]
    bad = [c for c in posted if not any(sm.value(var[v] if pol else -var[v]) == 1 for v, pol in c)]
    if bad:
        return "badmodel", ["exposed model violates a posted constraint"]
    probe("bigcnf_solved")
    return "sat", []


def _alone_entry(arg):
    case, c = arg
    r = _simulate(case, only_client=c)
    return r["canon"].get(c, [])


def run_case(case):
    nclients = case["nclients"]
    alone = {}
    harness = []
    # reference ("alone") runs first, each in its own child of this still-pristine process
    if nclients > 1 and not case.get("no_alone"):
        for c in range(nclients):
            if not any(o["c"] == c for o in case["ops"]):
                continue
            st, val = forkpool.run_in_child(_alone_entry, (case, c), timeout_s=60.0)
            if st != "ok":
                raise RuntimeError("alone run failed: %s" % (val,))
            alone[c] = val
    r = _simulate(case)
    viol = r["violations"]
    for c, want in alone.items():
        got = r["canon"].get(c, [])
        # an aborted client stops early: compare the common prefix only (never a different answer)
        n = min(len(got), len(want)) if c in r["dead"] else max(len(got), len(want))
        if got[:n] != want[:n]:
            k = next((i for i in range(n) if i >= len(got) or i >= len(want) or got[i] != want[i]), None)
            viol.append({"property": "C07", "clause": "meaning of the encoding depends on earlier encodings in the process",
                         "key": {"op": "history"},
                         "detail": {"client": c, "first_differing_post": k}})
        r["probes"]["alone_compared"] = r["probes"].get("alone_compared", 0) + 1
    sigd = digest(r["sig"])
    out = {
        "violations": viol,
        "steps": len(r["history"]),
        "faults_fired": r["fired"],
        "faults_configured": r["configured"],
        "probes": r["probes"],
        "ops": r["ops"],
        "signature": sigd,
        "nontrivial": r["accepted"] >= 2,
        "digest": digest([r["history"], [(v["clause"], v["key"]) for v in viol], r["canon"]]),
    }
    out["history"] = r["history"] if case.get("want_history") else None
    out["sample"] = {"run": case.get("run"), "clients": nclients, "nvars": case["nvars"],
                     "history": r["history"][:12]}
    return out
