"""C14 - spectral placement keeps every module's disc inside the die, for every seed.

System under simulation: Spectral(netlist).spectral_layout(shape, n, False) with
the `random` module of tools.spectral.spectral_algorithm replaced by SimRandom.
The schedule IS the draw sequence: `mt` mode = honest Mersenne-Twister seeds (the
deciding mode), `lowent` mode = quantised draws (coincident, extreme and symmetric
starts).  A failure seen only under `lowent` is recorded as an observation
(unrealised_degenerate_start), not as a violation: C14 quantifies over seeds.
"""
import math
import os

from sim.digest import digest, canon, excname
from sim.simrandom import SimRandom
from engines import designs, sem

STREAM = "c14"
RUN_TIMEOUT_S = 300.0
TIERS = {
    "quick": {"runs": 350, "wall_s": 240, "batch": 350, "det_same": 12, "det_fresh": 2},
    "thorough": {"runs": 6000, "wall_s": 2700, "batch": 1000, "det_same": 32, "det_fresh": 4},
}
RULE = ("Each run is one connected netlist (4-9 movable modules: soft, hard with one or several rectangles, plus fixed "
        "modules; nets of arity 2-4 with weights; discs fit in the die; die aspect ratio 0.2-5) placed under "
        "4-10 schedules of the random start: honest Mersenne-Twister seeds and low-entropy quantised draws, with 0-4 trials "
        "(0 = initial centres, no draw). Non-trivial: >=2 honest-seed layouts returned; distinct = BLAKE2 of "
        "(netlist digest, trial count, seeds, modes, outcomes).")
COMPONENTS = {
    "real": ["tools.spectral.spectral.Spectral (graph construction, spectral_layout)",
             "tools.spectral.spectral_algorithm (spectral_layout_die, normalize, orthogonalize, power iteration)",
             "frame.netlist (Netlist, Module.recenter_rectangles)"],
    "stub": ["random module seen by spectral_algorithm (SimRandom: seeded Mersenne-Twister or low-entropy draws)"],
    "simulator": ["seeded choice of the random-start schedule per layout", "draw counter"],
}
ASSUMPTIONS = [
    "netlists are connected, every module is on a net, >=4 movable modules, every disc radius < 0.45 * min(W, H)",
    "disc containment is checked within 1e-9 * max(W, H) (the algorithm scales so that |x| <= size/2 - r up to one rounding)",
    "a failure that only appears under low-entropy (quantised) draws is an observation, not a violation",
]


def gen_case(r, index, tier):
    W = r.choice([4, 6, 8, 10, 12, 20])
    H = max(2, int(round(W * r.choice([0.2, 0.5, 0.75, 1, 1, 1.5, 2, 5]))))
    die = {"family": r.choice(["dyadic", "decimal"]), "scale_exp": r.weighted([(0, 6), (1, 3), (3, 1), (9, 1), (-3, 1), (-4, 1)]), "nx": W, "ny": H,
           "regions": []}
    nmov = r.randint(4, 9) if r.chance(0.95) else r.randint(12, 30)
    nl = designs.gen_netlist(r, die, nmods=nmov + r.randint(0, 3), kinds=["soft", "soft", "soft", "hard", "fixed"],
                             allow_terminals=False, need_centers=True, connected=True, min_movable=nmov, allow_regions=False)
    # pinned terminals (fixed, with a centre) are fixed modules too; movable terminals are outside C14's quantifier
    for i in range(r.weighted([(0, 3), (1, 2), (2, 1)])):
        name = "T%d" % i
        nl["modules"].append({"name": name, "kind": "terminal", "fixed_terminal": True,
                              "center": (r.choice([0, 2 * W, r.randint(0, 2 * W)]), r.choice([0, 2 * H, r.randint(0, 2 * H)]))})
        other = r.choice([m["name"] for m in nl["modules"] if m["name"] != name])
        nl["nets"].append({"mods": [name, other], "w": r.choice([1, 2, 0.5])})
    # now and then one net is far weaker than the others (a factor 1e3 .. 1e7)
    if nl["nets"] and r.chance(0.05):
        r.choice(nl["nets"])["w"] = r.choice([0.001, 2e-07])
    # discs must fit: cap soft areas
    cap = (0.45 * min(W, H)) ** 2 * math.pi
    tot = 0
    for m in nl["modules"]:
        if m["kind"] == "soft":
            m["area"] = max(1, min(m["area"], int(cap * 0.8), max(1, W * H // (2 * len(nl["modules"])))))
            m.pop("boxes", None)
            m.pop("aspect", None)
            if r.chance(0.5):
                m.pop("center", None)
            # a partially shaped soft block: a seed rectangle that covers only part of (rarely all of) the declared area
            if r.chance(0.2):
                side = 1 if m["area"] < 4 or r.chance(0.7) else 2
                if m["area"] >= side * side and W > side and H > side:
                    x, y = r.randint(0, W - side), r.randint(0, H - side)
                    m["boxes"] = [(x, y, x + side, y + side)]
                    m.pop("center", None)
    # now and then a pure star: every movable module hangs on one fixed module only, and one of them is large
    fixeds = [m["name"] for m in nl["modules"] if m["kind"] == "fixed"]
    if fixeds and r.chance(0.03):
        hub = r.choice(fixeds)
        nl["nets"] = [{"mods": [hub, m["name"]], "w": r.choice([1, 1, 2, 10])} for m in nl["modules"] if m["name"] != hub]
        softs_ = [m for m in nl["modules"] if m["kind"] == "soft"]
        if softs_:
            r.choice(softs_)["area"] = max(1, int(r.choice([0.2, 0.3]) * W * H))
    ntr = r.weighted([(0, 1), (1, 4), (2, 2), (3, 1), (4, 1)])
    trials = []
    # the same netlist is also placed on a second, larger die in the same process (a flow that tries several die shapes):
    # the order of the layouts is part of the schedule
    alt = None
    if r.chance(0.5):
        alt = [W * r.choice([1, 2, 2, 3]), H * r.choice([1, 2, 3])]
    for _ in range(r.randint(4, 10)):
        mode = r.weighted([("mt", 7), ("lowent", 3)])
        trials.append({"seed": r.below(1 << 31), "mode": mode, "bits": r.randint(0, 3), "alt": bool(alt) and r.chance(0.4),
                       "verbose": r.chance(0.25), "reuse": r.chance(0.3)})
    # a flow that places the same netlist again and again while the area estimates of its soft blocks are being revised
    # (preliminary estimates are smaller): every layout of the sequence is judged
    softs = [m["name"] for m in nl["modules"] if m["kind"] == "soft" and not m.get("boxes")]
    if softs and r.chance(0.3):
        for _ in range(r.randint(4, 8)):
            trials.append({"seed": r.below(1 << 31), "mode": "mt", "bits": 0, "alt": False, "verbose": False})
        for t in trials[:-1]:
            t["areas"] = {n: r.choice([0.25, 0.5, 0.5, 0.75]) for n in softs if r.chance(0.7)}
            t["reuse"] = False      # every revision is a new netlist object (the previous one is dropped)
    return {"engine": "c14", "die": die, "net": nl, "nfloorplans": ntr, "trials": trials, "alt_die": alt}


def units(case):
    return len(case["trials"])


def restrict(case, keep):
    return dict(case, trials=[case["trials"][i] for i in keep])


def simplify(case):
    nl = case["net"]
    for j in range(len(nl["nets"])):
        yield dict(case, net=dict(nl, nets=nl["nets"][:j] + nl["nets"][j + 1:]))
    if case["nfloorplans"] > 1:
        yield dict(case, nfloorplans=1)


_m = {}


def setup():
    import tools.spectral.spectral as SP
    import tools.spectral.spectral_algorithm as SA
    import frame.geometry.geometry as G
    _m.update(SP=SP, SA=SA, G=G)


def _connected(tree):
    names = list(tree["Modules"])
    adj = {n: set() for n in names}
    for e in tree["Nets"]:
        ms = [x for x in e if isinstance(x, str)]
        for a in ms:
            for b in ms:
                if a != b:
                    adj[a].add(b)
    if not names or any(not adj[n] for n in names):
        return False
    seen = {names[0]}
    stack = [names[0]]
    while stack:
        x = stack.pop()
        for y in adj[x]:
            if y not in seen:
                seen.add(y)
                stack.append(y)
    return len(seen) == len(names)


def _snapshot(net):
    out = {}
    for m in net.modules:
        out[m.name] = {"kind": sem.module_kind(m), "area": dict(m.area_regions), "fixed": m.is_fixed,
                       "rects": [sem.rect_spec(r) for r in m.rectangles],
                       "center": None if m.center is None else (m.center.x, m.center.y)}
    nets = [[[b.name for b in e.modules], e.weight] for e in net.edges]
    return out, nets


def run_case(case):
    SP, SA, G = _m["SP"], _m["SA"], _m["G"]
    die = case["die"]
    co = designs.Coords(die["family"], die["scale_exp"])
    W, H = co.f(die["nx"]), co.f(die["ny"])
    tree = designs.netlist_tree(_norm(case["net"]), die)
    viol, hist, probes, fired, configured, ops = [], [], {}, {}, {}, {}
    sig = []

    def probe(name, n=1):
        probes[name] = probes.get(name, 0) + n

    def result(nontrivial):
        return {"violations": viol, "steps": len(hist), "faults_fired": fired, "faults_configured": configured,
                "probes": probes, "ops": ops, "signature": digest(sig), "nontrivial": nontrivial,
                "digest": digest([hist, [(v["clause"], v["key"]) for v in viol]]),
                "history": hist if case.get("want_history") else None,
                "sample": {"run": case.get("run"), "die": [W, H], "modules": len(tree["Modules"]), "nets": len(tree["Nets"]),
                           "nfloorplans": case["nfloorplans"], "history": hist[:10]}}

    # admissibility (the property's quantifier)
    if not _connected(tree):
        hist.append({"out": "skipped(netlist not connected)"})
        return result(False)
    try:
        probe_net = SP.Spectral(tree)
    except AssertionError as e:
        hist.append({"out": "skipped(netlist rejected: %s)" % str(e)[:60]})
        return result(False)
    movable = [m for m in probe_net.modules if not m.is_fixed]
    if len(movable) < 4 or any(math.sqrt(m.area() / math.pi) >= 0.45 * min(W, H) for m in probe_net.modules if not m.is_fixed):
        hist.append({"out": "skipped(not admissible)"})
        return result(False)
    nfp0 = case["nfloorplans"]
    if nfp0 == 0 and any(m.center is None for m in probe_net.modules):
        nfp0 = 1
    nfp = nfp0
    ws = [float(e[-1]) if not isinstance(e[-1], str) else 1.0 for e in tree["Nets"]]
    spread = ">=500" if ws and max(ws) / min(ws) >= 500 else "<500"
    if spread == ">=500":
        probe("netlist_with_one_net_500_times_weaker_than_another")
    # are the movable modules linked to one another only through fixed modules? (nets restricted to their movable pins)
    mov_names = [m.name for m in movable]
    parent = {n: n for n in mov_names}

    def find(x):
        while parent[x] != x:
            parent[x] = parent[parent[x]]
            x = parent[x]
        return x
    for e in tree["Nets"]:
        pins = [x for x in e if isinstance(x, str) and x in parent]
        for a_, b_ in zip(pins, pins[1:]):
            parent[find(a_)] = find(b_)
    only_through_fixed = len({find(n) for n in mov_names}) > 1
    if only_through_fixed:
        probe("movable_modules_linked_only_through_fixed_modules")
    good = 0
    tol = 1e-9 * max(W, H)
    sig.append(digest(tree))
    W0, H0 = W, H
    prev = None
    for t in case["trials"]:
        ops["layout"] = ops.get("layout", 0) + 1
        mode = t["mode"]
        if t.get("alt") and case.get("alt_die"):
            W, H = co.f(case["alt_die"][0]), co.f(case["alt_die"][1])
            probe("layout_on_second_die")
        else:
            W, H = W0, H0
        tol = 1e-9 * max(W, H)
        configured[mode] = configured.get(mode, 0) + 1
        rnd = SimRandom(t["seed"], mode, t.get("bits", 2))
        SA.random = rnd
        tree_t = tree
        if t.get("areas"):
            tree_t = dict(tree, Modules={n: (dict(info, area=info["area"] * t["areas"][n])
                                             if n in t["areas"] and isinstance(info.get("area"), float) else info)
                                         for n, info in tree["Modules"].items()})
            probe("layout_with_revised_area_estimates")
        if t.get("reuse") and prev is not None and prev[1] == t.get("areas"):
            net = prev[0]        # the same object is laid out again (a flow that tries several die shapes or seeds)
            probe("same_object_laid_out_again" + ("_on_another_die" if (W, H) != prev[2] else ""))
        else:
            net = SP.Spectral(tree_t)
        prev = (net, t.get("areas"), (W, H))
        # "zero trials" means "start from the centres the modules have": only defined when every module has one (a layout
        # drops the centres of the hard modules it has moved, so an object laid out before may no longer qualify)
        nfp = 1 if (nfp0 == 0 and any(m.center is None for m in net.modules)) else nfp0
        before, nets_before = _snapshot(net)
        # the nets of the *input document* are the reference (constructing the Spectral object must not change them either)
        nets_before = [[[x for x in e if isinstance(x, str)], float(e[-1]) if not isinstance(e[-1], str) else 1.0]
                       for e in tree["Nets"]]
        unknown = sum(1 for i, m in enumerate(net.modules) if not m.is_fixed)
        key = {"mode": "honest-seed" if mode == "mt" else "low-entropy"}
        entry = {"seed": t["seed"], "mode": mode, "nfloorplans": nfp}
        try:
            net.spectral_layout(G.Shape(W, H), nfp, bool(t.get("verbose")))
        except (AssertionError, ZeroDivisionError, ValueError, OverflowError) as e:
            entry["out"] = "raised " + excname(e)
            hist.append(entry)
            sig.append((t["seed"], mode, "raised"))
            if mode == "mt":
                viol.append({"property": "C14", "clause": "spectral placement does not position the modules (raised)",
                             "key": dict(key, exc=excname(e), net_weight_spread=spread, movable_linked_only_through_fixed=only_through_fixed,
                                         die_size="<0.05" if max(W, H) < 0.05 else ">=0.05"),
                             "detail": {"seed": t["seed"], "exc": repr(e)[:200],
                                                                               "nfloorplans": nfp}})
            else:
                probe("unrealised_degenerate_start_" + excname(e))
                fired["lowent_degenerate"] = fired.get("lowent_degenerate", 0) + 1
            continue
        fired[mode] = fired.get(mode, 0) + 1
        if nfp > 0 and case["nfloorplans"] > 0:
            want = 2 * unknown * nfp
            if rnd.draws != want:
                # observation only: C14 does not prescribe how many draws a layout takes
                probe("draw_count_differs_from_2_per_unknown_node_per_trial")
        problems = []
        after, nets_after = _snapshot(net)
        if canon([[e[0], float(e[1])] for e in nets_after]) != canon(nets_before):
            problems.append(("nets changed", {}))
        for m in net.modules:
            b, a = before[m.name], after[m.name]
            if canon(a["area"]) != canon(b["area"]) or a["kind"] != b["kind"]:
                problems.append(("module area or kind changed", {"module": m.name}))
            if b["fixed"]:
                if canon(a["rects"]) != canon(b["rects"]):
                    problems.append(("fixed module moved", {"module": m.name, "before": b["rects"], "after": a["rects"]}))
                elif b["kind"] == "terminal" and (a["center"] is None or abs(a["center"][0] - b["center"][0]) > 1e-12 * max(W, H)
                                                  or abs(a["center"][1] - b["center"][1]) > 1e-12 * max(W, H)):
                    problems.append(("fixed module moved", {"module": m.name, "before": b["center"], "after": a["center"]}))
                continue
            rad = math.sqrt(m.area() / math.pi)
            if b["kind"] == "hard":
                # rigid translation: same shapes, one common offset
                if len(a["rects"]) != len(b["rects"]):
                    problems.append(("hard module lost rectangles", {"module": m.name}))
                    continue
                dxs = [ra[0] - rb[0] for ra, rb in zip(a["rects"], b["rects"])]
                dys = [ra[1] - rb[1] for ra, rb in zip(a["rects"], b["rects"])]
                shapes_ok = all(ra[2] == rb[2] and ra[3] == rb[3] for ra, rb in zip(a["rects"], b["rects"]))
                if not shapes_ok or max(dxs) - min(dxs) > tol or max(dys) - min(dys) > tol:
                    problems.append(("hard module not moved rigidly", {"module": m.name, "dx": dxs, "dy": dys}))
                    continue
                ar = sum(r_[2] * r_[3] for r_ in a["rects"])
                px = sum(r_[0] * r_[2] * r_[3] for r_ in a["rects"]) / ar
                py = sum(r_[1] * r_[2] * r_[3] for r_ in a["rects"]) / ar
            else:
                if a["center"] is None:
                    problems.append(("movable module has no position", {"module": m.name}))
                    continue
                px, py = a["center"]
                if b["kind"] == "soft" and canon(a["rects"]) != canon(b["rects"]):
                    problems.append(("soft module rectangles changed", {"module": m.name}))
            if not (math.isfinite(px) and math.isfinite(py)):
                problems.append(("position is not finite", {"module": m.name, "pos": [px, py]}))
            elif px - rad < -tol or px + rad > W + tol or py - rad < -tol or py + rad > H + tol:
                problems.append(("disc of a movable module sticks out of the die",
                                 {"module": m.name, "pos": [px, py], "radius": rad, "die": [W, H]}))
        if problems:
            entry["out"] = "violation: " + problems[0][0]
            if mode == "mt":
                c, d = problems[0]
                viol.append({"property": "C14", "clause": c, "key": key, "detail": dict(d, seed=t["seed"], nfloorplans=nfp)})
            else:
                probe("unrealised_degenerate_start_oracle_" + problems[0][0].replace(" ", "_")[:30])
        else:
            entry["out"] = "ok"
            if mode == "mt":
                good += 1
        hist.append(entry)
        sig.append((t["seed"], mode, entry["out"][:12]))
    if any(m["kind"] == "hard" and len(m.get("boxes", [])) > 1 for m in case["net"]["modules"]):
        probe("hard_module_with_several_rectangles")
    if any(m["kind"] == "fixed" for m in case["net"]["modules"]):
        probe("netlist_with_fixed_module")
    if case["nfloorplans"] == 0:
        probe("initial_centres_no_draw")
    return result(good >= 2)


def _norm(nl):
    mods = []
    for m in nl["modules"]:
        m = dict(m)
        if "boxes" in m:
            m["boxes"] = [tuple(b) for b in m["boxes"]]
        if "center" in m:
            m["center"] = tuple(m["center"])
        mods.append(m)
    return dict(nl, modules=mods)
