"""Semantic digests of FRAME objects: what a document says, independent of how it is laid out."""


def rect_spec(r):
    return [float(r.center.x), float(r.center.y), float(r.shape.w), float(r.shape.h), r.region]


def die_sem(die, full=False):
    d = {
        "w": float(die.width), "h": float(die.height),
        "blockages": sorted(rect_spec(r) for r in die.blockages),
        "special": sorted(rect_spec(r) for r in die.specialized_regions),
    }
    if full:
        d["ground"] = sorted(rect_spec(r) for r in die.ground_regions)
        d["fixed"] = sorted(rect_spec(r) for r in die.fixed_regions)
    return d


def alloc_sem(alloc):
    return [[rect_spec(a.rect), {m: float(v) for m, v in a.alloc.items()}, a.depth] for a in alloc.allocations]


def module_kind(m):
    if m.is_terminal:
        return "terminal"
    if m.is_fixed:
        return "fixed"
    if m.is_hard:
        return "hard"
    return "soft"


def netlist_sem(net, roles=False, per_region=True, centers=True, flip=True, aspect=True, order_rects=False):
    mods = []
    for m in net.modules:
        d = {"name": m.name, "kind": module_kind(m)}
        if m.is_fixed and m.is_terminal:
            d["fixed_terminal"] = True
        if flip:
            d["flip"] = bool(m.flip)
        if not m.is_hard:
            d["area"] = {k: float(v) for k, v in m.area_regions.items()} if per_region else float(m.area())
        if centers:
            d["center"] = None if m.center is None else [float(m.center.x), float(m.center.y)]
        if aspect:
            d["aspect"] = None if m.aspect_ratio is None else [float(m.aspect_ratio.min_wh), float(m.aspect_ratio.max_wh)]
        rects = [rect_spec(r) + ([r.location.name] if roles else []) for r in m.rectangles]
        d["rects"] = rects if order_rects else sorted(rects, key=repr)
        mods.append(d)
    nets = [[[b.name for b in e.modules], float(e.weight)] for e in net.edges]
    return {"modules": mods, "nets": nets}
