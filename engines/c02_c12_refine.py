"""C02 + C12 - refinement: conservation, decisions, progress (one engine, two checks).

System under simulation: the refine/optimise loop of glbfloor with the optimiser
replaced by a seeded stub (the environment) and the allocation document on SimFS
as the only durable state.  Real code: Allocation (all of it), Rectangle.split*,
x_cuttable/y_cuttable, gather_boundaries, the YAML writer/reader.

History: a script over a *pool* of allocations; operations may be applied to any
earlier allocation (parent and child share Rectangle objects).  Faults: restart
(only the persisted document survives), degenerate optimiser answers, write
faults on persist, abort of an operation at a seeded line event.

Reference model: cells as exact rationals (Fraction of the floats FRAME holds).
"""
import os
from fractions import Fraction

from sim import abort as abortmod
from sim.digest import digest, excname
from sim.rng import Rng
from sim.simfs import SimFS
from engines import designs

STREAM = "c02c12"
RUN_TIMEOUT_S = 180.0
TIERS = {
    "quick": {"runs": 3000, "wall_s": 200, "batch": 1000, "det_same": 24, "det_fresh": 3},
    "thorough": {"runs": 60000, "wall_s": 1800, "batch": 4000, "det_same": 64, "det_fresh": 6},
}
RULE = ("Each run is a seeded history over a pool of allocations: an initial allocation (<=10 cells on a dyadic, "
        "decimal or thirds lattice, with empty maps, recorded depths, a fixed cell, dropped cells and sliver offsets) "
        "followed by <=8 operations drawn from refine(t, levels<=3), uniform_refinement_depth, griddify, "
        "must_be_refined, stub-optimise (degenerate answers: empty maps, exact ties with t, dropped cells), persist "
        "(write_yaml to the simulated file system, with ENOSPC/EIO faults), restart (drop every object, reload the last "
        "persisted document), refine-while-needed loop, each applicable to any earlier allocation of the pool; abort "
        "faults kill an operation at a seeded line event. Non-trivial: >=2 refinement operations executed; distinct = "
        "distinct BLAKE2 signature of the sequence (operation kind, outcome, fault kind).")
COMPONENTS = {
    "real": ["frame.allocation.allocation.Allocation (constructor, refine, must_be_refined, griddify, "
             "uniform_refinement_depth, write_yaml, area, center)", "frame.geometry.geometry.Rectangle (split*, *_cuttable), "
             "gather_boundaries", "frame.utils.utils.read_yaml/write_yaml (ruamel)"],
    "stub": ["optimiser (seeded stub re-assigning ratio maps within what extract_solution can produce)",
             "file system (SimFS)"],
    "simulator": ["seeded history over a pool of allocations", "restart from persisted document", "abort injector",
                  "exact rational reference model of cells"],
}
ASSUMPTIONS = [
    "every module keeps a positive total area and every ratio stays in [0,1] (what the library accepts as valid)",
    "cells are at least 1/1024 of the layout side, far above the process-wide rectangle tolerance (1e-12 relative)",
    "dyadic family: reference and implementation must agree exactly; decimal/thirds: within 1e-9 relative",
    "halving a square cell may pick either axis; griddify's 1 % sliver exemption is read leniently (1 % of the other side "
    "of the original cell)",
    "fixed cells are exempt from 'every cell at the former maximum depth' because C02 forbids cutting them",
]

MAX_CELLS = 1200


# --------------------------------------------------------------------------- generator
def _gen_t(r):
    return r.weighted([(0.5, 1), (0.7, 2), (0.75, 2), (0.9, 2), (0.95, 2), (1.0, 2), (0.0, 1), (0.999, 1),
                       (round(r.random(), 3), 3)])


def gen_case(r, index, tier):
    deep = tier == "thorough"
    big = r.chance(0.08 if deep else 0.02)   # now and then a large layout, refined deeper
    desc = designs.gen_allocation(r, offsets=True, max_cells=(40 if big else 16 if deep else 10), extreme_scales=True)
    n = r.randint(1, 14 if deep else 8)
    ops = []
    _fresh_t = globals()["_gen_t"]

    def _gen_t(r_):
        # flows ask again at the threshold they used before (the refine-while-needed loop does nothing else)
        used = [o["t"] for o in ops if "t" in o]
        return r_.choice(used) if used and r_.chance(0.4) else _fresh_t(r_)

    for _ in range(n):
        k = r.below(100)
        on = r.below(8) if not ops or r.chance(0.6) else ops[-1]["on"] if "on" in ops[-1] else r.below(8)
        if k < 28:
            ops.append({"op": "refine", "on": on, "t": _gen_t(r), "levels": r.weighted([(1, 6), (2, 3), (3, 1)] + ([(4, 2), (5, 1)] if big else []))})
        elif k < 40:
            ops.append({"op": "uniform", "on": on})
        elif k < 54:
            ops.append({"op": "griddify", "on": on})
        elif k < 62:
            ops.append({"op": "must", "on": on, "t": _gen_t(r)})
        elif k < 74:
            ops.append({"op": "stub", "on": on, "seed": r.below(1 << 30),
                        "mode": r.choice(["dominant", "ties", "empty", "random", "extract"]), "t": _gen_t(r)})
        elif k < 80:
            ops.append({"op": "persist", "on": on})
            if r.chance(0.6):
                ops.append({"op": r.choice(["reload", "reload", "restart"])})
        elif k < 84:
            ops.append({"op": "restart"})
        elif k < 87:
            ops.append({"op": "fix", "on": on, "cell": r.below(16)})
        elif k < 90:
            ops.append({"op": "init_alloc", "on": on, "cell": r.below(16)})
        else:
            ops.append({"op": "loop", "on": on, "t": _gen_t(r), "cap": r.randint(2, 5),
                        "stub_seed": r.below(1 << 30) if r.chance(0.5) else None})
    # faults
    if r.chance(0.3):
        cands = [i for i, o in enumerate(ops) if o["op"] in ("refine", "uniform", "griddify", "loop", "must")]
        if cands:
            i = r.choice(cands)
            # the interruption lands at a seeded *fraction* of the operation's own length (measured by a traced dry run), so
            # that it falls inside the operation whatever its size; sometimes at an absolute early line instead
            ops[i]["fault"] = {"kind": "abort", "frac": round(r.random(), 4)} if r.chance(0.75) else \
                {"kind": "abort", "line_event": r.randint(1, r.choice([10, 30, 300]))}
            if r.chance(0.7):
                # the caller catches the interruption and simply tries again on the same allocation
                retry = {k: v for k, v in ops[i].items() if k != "fault"}
                ops.insert(i + 1, retry)
                if r.chance(0.5) and ops[i]["op"] in ("refine", "must"):
                    # ... after having asked the same question at another threshold before
                    ops.insert(i, {"op": "must", "on": ops[i]["on"], "t": _gen_t(r)})
    if r.chance(0.2):
        cands = [i for i, o in enumerate(ops) if o["op"] == "persist"]
        if cands:
            ops[r.choice(cands)]["fault"] = {"kind": r.choice(["enospc", "eio_write", "close_err", "enoent"]),
                                             "byte": r.randint(0, 200)}
    return {"engine": "c02c12", "alloc": desc, "ops": ops, "via_text": r.chance(0.3)}


def units(case):
    return len(case["ops"])


def restrict(case, keep):
    return dict(case, ops=[case["ops"][i] for i in keep])


def simplify(case):
    ops = case["ops"]
    for i, o in enumerate(ops):
        if "fault" in o:
            yield dict(case, ops=ops[:i] + [{k: v for k, v in o.items() if k != "fault"}] + ops[i + 1:])
        if o.get("levels", 1) > 1:
            yield dict(case, ops=ops[:i] + [dict(o, levels=o["levels"] - 1)] + ops[i + 1:])
        if o.get("on", 0) > 0:
            yield dict(case, ops=ops[:i] + [dict(o, on=0)] + ops[i + 1:])
    a = case["alloc"]
    cells = a["cells"]
    if len(cells) > 1:
        for i in range(len(cells)):
            yield dict(case, alloc=dict(a, cells=cells[:i] + cells[i + 1:]))
    for i, c in enumerate(cells):
        if c["depth"] > 0:
            yield dict(case, alloc=dict(a, cells=cells[:i] + [dict(c, depth=0)] + cells[i + 1:]))
        if len(c["alloc"]) > 1:
            for m in list(c["alloc"]):
                al = {k: v for k, v in c["alloc"].items() if k != m}
                yield dict(case, alloc=dict(a, cells=cells[:i] + [dict(c, alloc=al)] + cells[i + 1:]))
        if any(isinstance(v, Fraction) and v.denominator != 1 for v in c["box"]):
            b = tuple(int(round(v)) for v in c["box"])
            if b[2] > b[0] and b[3] > b[1]:
                yield dict(case, alloc=dict(a, cells=cells[:i] + [dict(c, box=b)] + cells[i + 1:]))
    if a["scale_exp"] != 0:
        yield dict(case, alloc=dict(a, scale_exp=0))
    if case.get("via_text"):
        yield dict(case, via_text=False)


# --------------------------------------------------------------------------- system side
_A = None
_G = None
_U = None


def setup():
    global _A, _G, _U
    import frame.allocation.allocation as A
    import frame.geometry.geometry as G
    import frame.utils.utils as U
    _A, _G, _U = A, G, U


def _norm_case(case):
    """Replay files carry JSON: boxes come back as lists and Fractions as strings."""
    a = case["alloc"]
    cells = []
    for c in a["cells"]:
        box = tuple(Fraction(v) if isinstance(v, str) else v for v in c["box"])
        cells.append(dict(c, box=box))
    return dict(case, alloc=dict(a, cells=cells))


class MCell:
    """Model of a cell: exact rationals of the floats FRAME holds."""
    __slots__ = ("x0", "y0", "x1", "y1", "w", "h", "alloc", "depth", "fixed", "cx", "cy")

    def __init__(self, ra):
        r = ra.rect
        self.cx, self.cy = Fraction(r.center.x), Fraction(r.center.y)
        self.w, self.h = Fraction(r.shape.w), Fraction(r.shape.h)
        self.x0, self.x1 = self.cx - self.w / 2, self.cx + self.w / 2
        self.y0, self.y1 = self.cy - self.h / 2, self.cy + self.h / 2
        self.alloc = dict(ra.alloc)
        self.depth = ra.depth
        self.fixed = bool(r.fixed)

    def key(self):
        return (self.x0, self.y0, self.x1, self.y1)


# geometry of the cells the *model* knows to be fixed, for the whole pool of one simulated process (a fixed cell is never
# cut, so its geometry identifies it); the implementation's own rect.fixed flags are NOT trusted for the oracle
_model_fixed = {}   # id(allocation) -> set of cell geometries the model holds to be fixed in that allocation


def _snapshot(alloc):
    cells = [MCell(ra) for ra in alloc.allocations]
    fk = _model_fixed.get(id(alloc), set())
    for c in cells:
        c.fixed = c.key() in fk
    return cells


def _inherit_fixed(old, new_alloc, tol):
    """The model's rule: a cell of the result is fixed iff it lies in a cell of the operand that the model holds fixed."""
    new = [MCell(ra) for ra in new_alloc.allocations]
    fk = set()
    fixed_old = [p for p in old if p.fixed]
    for c in new:
        for p in fixed_old:
            if p.x0 - tol.len <= c.cx <= p.x1 + tol.len and p.y0 - tol.len <= c.cy <= p.y1 + tol.len:
                fk.add(c.key())
                break
    _model_fixed[id(new_alloc)] = fk


def _flag_object(pool, rect):
    """The harness (or the library's initial_allocation) flagged this Rectangle object: every allocation of the pool that
    holds the very same object holds the same cell."""
    for X in pool:
        for ra in X.allocations:
            if ra.rect is rect:
                _model_fixed.setdefault(id(X), set()).add(MCell(ra).key())


def _area(c):
    return c.w * c.h


def _ov(a, b):
    w = min(a.x1, b.x1) - max(a.x0, b.x0)
    h = min(a.y1, b.y1) - max(a.y0, b.y0)
    return w * h if w > 0 and h > 0 else Fraction(0)


class Tol:
    def __init__(self, family, cells):
        size = max([max(c.x1, c.y1) for c in cells] + [Fraction(1, 10 ** 6)])
        self.exact = family == "dyadic"
        self.len = Fraction(0) if self.exact else size / 10 ** 9
        self.area = self.len * size
        self.size = size


def _close(a, b, tol):
    return abs(a - b) <= tol


def _inside(c, p, tol):
    return c.x0 >= p.x0 - tol.len and c.y0 >= p.y0 - tol.len and c.x1 <= p.x1 + tol.len and c.y1 <= p.y1 + tol.len


def _find_parent(c, old, tol):
    best = None
    for p in old:
        if p.x0 - tol.len <= c.cx <= p.x1 + tol.len and p.y0 - tol.len <= c.cy <= p.y1 + tol.len:
            if best is None or _ov(c, p) > _ov(c, best):
                best = p
    return best


def _group_children(old, new, tol):
    """Maps every new cell to the old cell it lies in.  Returns (groups, orphans)."""
    groups = {id(p): [] for p in old}
    orphans = []
    for c in new:
        p = _find_parent(c, old, tol)
        if p is None:
            orphans.append(c)
        else:
            groups[id(p)].append(c)
    return groups, orphans


def _check_conservation(old, new, A_old, A_new, tol, viol, opname):
    """C02: same region tiled, no overlap, ratios inherited, fixed uncut, area and centroid per module."""
    def v(clause, detail):
        viol.append({"property": "C02", "clause": clause, "key": {"op": opname}, "detail": detail})

    groups, orphans = _group_children(old, new, tol)
    if orphans:
        v("refined cell lies outside every original cell", {"cell": _fmt(orphans[0])})
        return groups
    for p in old:
        ch = groups[id(p)]
        if not ch:
            v("original cell is not covered by any refined cell", {"cell": _fmt(p)})
            continue
        for c in ch:
            if not _inside(c, p, tol):
                v("refined cell sticks out of the cell it was cut from", {"parent": _fmt(p), "child": _fmt(c)})
                break
            if c.alloc != p.alloc:
                v("refined cell does not inherit the occupancy ratios of its parent",
                  {"parent": _fmt(p), "child": _fmt(c)})
                break
        tot = sum((_area(c) for c in ch), Fraction(0))
        if not _close(tot, _area(p), tol.area * max(1, len(ch))):
            v("refined cells do not tile the original cell (area differs)",
              {"parent": _fmt(p), "children": len(ch), "area_children": float(tot), "area_parent": float(_area(p))})
        else:
            bad = False
            for i in range(len(ch)):
                for j in range(i + 1, len(ch)):
                    if _ov(ch[i], ch[j]) > tol.area:
                        v("refined cells overlap", {"a": _fmt(ch[i]), "b": _fmt(ch[j])})
                        bad = True
                        break
                if bad:
                    break
        if p.fixed and (len(ch) != 1 or not _same_rect(ch[0], p, tol)):
            v("cell of a fixed module was cut", {"parent": _fmt(p), "children": len(ch)})
    # per-module area and centre of mass through the library's own API
    mods_old = {m for p in old for m in p.alloc}
    mods_new = {m for c in new for m in c.alloc}
    if mods_old != mods_new:
        v("set of allocated modules changed", {"old": sorted(mods_old), "new": sorted(mods_new)})
        return groups
    for m in sorted(mods_old):
        ea = sum((_area(p) * Fraction(p.alloc[m]) for p in old if m in p.alloc), Fraction(0))
        if ea == 0:
            continue
        ex = sum((_area(p) * Fraction(p.alloc[m]) * p.cx for p in old if m in p.alloc), Fraction(0)) / ea
        ey = sum((_area(p) * Fraction(p.alloc[m]) * p.cy for p in old if m in p.alloc), Fraction(0)) / ea
        try:
            ga = A_new.area(m)
            gc = A_new.center(m)
        except BaseException as e:  # noqa
            v("area()/center() of the refined allocation raised", {"module": m, "exc": repr(e)})
            continue
        rel = 1e-9
        if abs(ga - float(ea)) > rel * float(ea) + 1e-300:
            v("module area changed by refinement", {"module": m, "before": float(ea), "after": ga})
        elif abs(gc.x - float(ex)) > rel * float(tol.size) or abs(gc.y - float(ey)) > rel * float(tol.size):
            v("module centre of mass changed by refinement",
              {"module": m, "before": [float(ex), float(ey)], "after": [gc.x, gc.y]})
    return groups


def _same_rect(a, b, tol):
    return (_close(a.x0, b.x0, tol.len) and _close(a.y0, b.y0, tol.len) and
            _close(a.x1, b.x1, tol.len) and _close(a.y1, b.y1, tol.len))


def _fmt(c):
    return {"x": [float(c.x0), float(c.x1)], "y": [float(c.y0), float(c.y1)], "alloc": c.alloc, "depth": c.depth,
            "fixed": c.fixed}


def _halving_ok(children, x0, y0, x1, y1, levels, tol):
    """True iff children are exactly the 2^levels cells obtained from the box by repeatedly halving the
    longer side (either side when they tie)."""
    if levels == 0:
        if len(children) != 1:
            return False
        c = children[0]
        return (_close(c.x0, x0, tol.len) and _close(c.y0, y0, tol.len) and _close(c.x1, x1, tol.len) and
                _close(c.y1, y1, tol.len))
    if len(children) != 2 ** levels:
        return False
    w, h = x1 - x0, y1 - y0
    axes = []
    tie = tol.len * 4
    if h > w + tie:
        axes = ["y"]
    elif w > h + tie:
        axes = ["x"]
    else:
        axes = ["x", "y"]
    for ax in axes:
        if ax == "x":
            mid = (x0 + x1) / 2
            left = [c for c in children if c.cx < mid]
            right = [c for c in children if c.cx >= mid]
            if _halving_ok(left, x0, y0, mid, y1, levels - 1, tol) and _halving_ok(right, mid, y0, x1, y1, levels - 1, tol):
                return True
        else:
            mid = (y0 + y1) / 2
            lo = [c for c in children if c.cy < mid]
            hi = [c for c in children if c.cy >= mid]
            if _halving_ok(lo, x0, y0, x1, mid, levels - 1, tol) and _halving_ok(hi, x0, mid, x1, y1, levels - 1, tol):
                return True
    return False


def _should_split(p, t):
    """The statement's selection rule, with fixed cells exempt (C02)."""
    return (not p.fixed) and len(p.alloc) > 0 and all(x <= t for x in p.alloc.values())


def _check_refine(old, new, groups, t, levels, tol, viol):
    def v(clause, detail):
        viol.append({"property": "C12", "clause": clause, "key": {"op": "refine"}, "detail": detail})

    for p in old:
        ch = groups.get(id(p), [])
        if p.fixed and p.alloc and all(x <= t for x in p.alloc.values()):
            # fixed cells are judged by C02 only
            continue
        if _should_split(p, t):
            if not _halving_ok(ch, p.x0, p.y0, p.x1, p.y1, levels, tol):
                v("cell below the threshold is not split into 2^levels equal cells by halving the longer side",
                  {"cell": _fmt(p), "t": t, "levels": levels, "children": [_fmt(c) for c in ch[:8]]})
                return
            if any(c.depth != p.depth + levels for c in ch):
                v("depth of the new cells is not raised by the number of levels",
                  {"cell": _fmt(p), "levels": levels, "depths": [c.depth for c in ch]})
                return
        else:
            if len(ch) != 1 or not _same_rect(ch[0], p, tol) or ch[0].depth != p.depth or ch[0].alloc != p.alloc:
                v("cell that must not be split was changed", {"cell": _fmt(p), "t": t,
                                                              "children": [_fmt(c) for c in ch[:8]]})
                return


def _check_uniform(old, new, groups, tol, viol):
    def v(clause, detail):
        viol.append({"property": "C12", "clause": clause, "key": {"op": "uniform"}, "detail": detail})

    maxd = max(p.depth for p in old)
    for p in old:
        ch = groups.get(id(p), [])
        if p.fixed:
            continue
        if any(c.depth != maxd for c in ch):
            v("uniform-depth refinement leaves a cell that is not at the former maximum depth",
              {"cell": _fmt(p), "max_depth": maxd, "depths": [c.depth for c in ch]})
            return
        if not _halving_ok(ch, p.x0, p.y0, p.x1, p.y1, maxd - p.depth, tol):
            v("uniform-depth refinement does not halve the cell the required number of times",
              {"cell": _fmt(p), "max_depth": maxd, "children": [_fmt(c) for c in ch[:8]]})
            return


def _check_grid(old, new, groups, tol, viol):
    def v(clause, detail):
        viol.append({"property": "C12", "clause": clause, "key": {"op": "griddify"}, "detail": detail})

    xs = sorted({c.x0 for c in new} | {c.x1 for c in new})
    ys = sorted({c.y0 for c in new} | {c.y1 for c in new})
    # distinct-boundary tolerance: far above the library's 1e-12 relative epsilon, far below any cell
    sep = tol.size / 10 ** 7
    for p in old:
        for c in groups.get(id(p), []):
            if c.fixed:
                continue
            for x in xs:
                if x - c.x0 > sep and c.x1 - x > sep:
                    if min(x - c.x0, c.x1 - x) > p.h / 100 + sep:
                        v("after gridding a refinable cell is crossed by a vertical boundary line of another cell",
                          {"cell": _fmt(c), "x": float(x), "original": _fmt(p)})
                        return
            for y in ys:
                if y - c.y0 > sep and c.y1 - y > sep:
                    if min(y - c.y0, c.y1 - y) > p.w / 100 + sep:
                        v("after gridding a refinable cell is crossed by a horizontal boundary line of another cell",
                          {"cell": _fmt(c), "y": float(y), "original": _fmt(p)})
                        return


def _stub_optimise(alloc, seed, mode, t):
    """The environment: re-assigns ratio maps the way extract_solution can (drops ratios <= 1-t, may leave maps
    empty, may put ratios exactly on the threshold).  Returns the tree for a new Allocation (Rectangle objects shared)."""
    r = Rng(seed)
    cells = alloc.allocations
    mods = sorted({m for a in cells for m in a.alloc})
    if not mods:
        mods = ["M0"]
    tree = []
    for a in cells:
        if a.rect.fixed:
            tree.append([a.rect, dict(a.alloc), a.depth])
            continue
        new = {}
        if mode == "dominant":
            new[r.choice(mods)] = r.choice([1.0, 0.99, max(t, 0.5) + 0.001 if t < 0.999 else 1.0])
        elif mode == "ties":
            for m in mods:
                if r.chance(0.5):
                    new[m] = t if 0 <= t <= 1 else 0.5
        elif mode == "empty":
            if r.chance(0.5):
                new[r.choice(mods)] = round(r.random(), 2)
        else:
            for m in mods:
                if r.chance(0.5):
                    new[m] = round(r.random(), 3)
        new = {m: x for m, x in new.items() if 0 < x <= 1}
        if mode == "extract":
            new = {m: x for m, x in new.items() if x > 1 - t}
            if not new:
                continue  # extract_solution drops empty cells
            tree.append([a.rect, new, 0])
        else:
            tree.append([a.rect, new, a.depth])
    # every module keeps positive area; at least one cell remains
    if not tree:
        a = cells[0]
        tree.append([a.rect, {mods[0]: 1.0}, 0 if mode == "extract" else a.depth])
    present = {m for item in tree for m, x in item[1].items() if x > 0}
    free = [item for item in tree if not item[0].fixed]
    for m in mods:
        if m not in present and free:
            r.choice(free)[1][m] = r.choice([1.0, 0.6, round(0.05 + 0.9 * r.random(), 3)])
            present.add(m)
    for item in tree:   # a module left with zero entries only has no area: the constructor would divide by it
        for m in [m for m in item[1] if m not in present]:
            del item[1][m]
    return tree


class _Skip(Exception):
    pass


def run_case(case):
    case = _norm_case(case)
    root = os.path.abspath(os.environ.get("FRAME_REPO", "/repo")) + os.sep
    import shutil
    import tempfile
    scratch = tempfile.mkdtemp(prefix="frame-verif-", dir=os.environ.get("VERIF_SCRATCH") or ("/dev/shm" if os.path.isdir("/dev/shm") else None))
    os.makedirs(os.path.join(scratch, "fs"))
    fs = SimFS(mirror=os.path.join(scratch, "fs"))   # real directory underneath, faults injected at open()
    os.chdir(fs.mirror)
    _U.open = fs.open  # the seam: frame.utils.utils resolves `open` through its module globals
    try:
        return _run_case_body(case, fs, root)
    finally:
        os.chdir("/")
        shutil.rmtree(scratch, ignore_errors=True)


def _run_case_body(case, fs, root):
    viol = []
    hist = []
    probes = {}
    ops_count = {}
    fired = {}
    configured = {}
    sig = []

    def probe(name, n=1):
        probes[name] = probes.get(name, 0) + n

    desc = case["alloc"]
    family = desc["family"]
    tree = designs.alloc_tree(desc)
    # fixed cells only exist in-process: hand the constructor Rectangle objects for them
    co = designs.Coords(desc["family"], desc["scale_exp"])
    build = []
    for c, item in zip(desc["cells"], tree):
        if c["fixed"]:
            rc = item[0]
            rect = _G.Rectangle(center=_G.Point(rc[0], rc[1]), shape=_G.Shape(rc[2], rc[3]), fixed=True)
            build.append([rect] + item[1:])
        else:
            build.append(item)
    try:
        if case.get("via_text") and not any(c["fixed"] for c in desc["cells"]):
            text = _U.write_yaml(tree)
            if ": " in text or "\n" in text:
                a0 = _A.Allocation(text)
                probe("initial_from_text")
            else:
                a0 = _A.Allocation(build)
        else:
            a0 = _A.Allocation(build)
    except BaseException as e:  # noqa
        # the generator only produces valid allocations; a rejection is a finding of the constructor
        # whether a layout is accepted is the loader's business (C05's subject); C02 starts from an accepted allocation
        probe("initial_allocation_rejected_by_the_constructor")
        hist.append({"seq": -1, "op": "load", "out": "rejected: " + repr(e)[:80]})
        return _result(case, viol, hist, probes, ops_count, fired, configured, sig, 0)
    _model_fixed.clear()
    _model_fixed[id(a0)] = {MCell(ra).key() for ra in a0.allocations if ra.rect.fixed}
    pool = [a0]
    persisted = None  # (path, snapshot)
    npersist = 0
    refine_ops = 0
    last_aborted_target = None

    def run_op(fn, fault):
        if fault is not None and fault["kind"] == "abort":
            configured["abort"] = configured.get("abort", 0) + 1
            k_ = fault.get("line_event")
            if k_ is None:
                total = abortmod.count_line_events(root, fn)   # dry run: the operations are pure w.r.t. their operand
                k_ = max(1, int(fault["frac"] * total))
            ab = abortmod.Aborter(root, k_)
            st, val = ab.run(fn)
            if st == "aborted":
                fired["abort"] = fired.get("abort", 0) + 1
                return "aborted", val
            return "done", val
        return "done", fn()

    for seq, o in enumerate(case["ops"]):
        kind = o["op"]
        ops_count[kind] = ops_count.get(kind, 0) + 1
        if o.get("fault") is None and seq > 0 and case["ops"][seq - 1].get("fault", {}).get("kind") == "abort" and last_aborted_target is not None \
                and {k: v for k, v in case["ops"][seq - 1].items() if k != "fault"} == o and last_aborted_target in pool:
            A = last_aborted_target   # the retry addresses the allocation whose operation was interrupted
        else:
            A = pool[o.get("on", 0) % len(pool)]
        if o.get("fault", {}).get("kind") == "abort":
            last_aborted_target = A
        old = _snapshot(A)
        tol = Tol(family, old)
        fault = o.get("fault")
        entry = {"seq": seq, "op": kind, "on": o.get("on", 0) % len(pool), "cells": len(old)}
        outcome = "ok"
        try:
            if kind == "refine":
                t, lv = o["t"], o["levels"]
                if len(old) * (2 ** lv) > MAX_CELLS:
                    outcome = "skipped(too many cells)"
                else:
                    pred = A.must_be_refined(t)
                    st, B = run_op(lambda: A.refine(t, lv), fault)
                    if st == "aborted":
                        outcome = "aborted at " + str(B)
                    else:
                        refine_ops += 1
                        _inherit_fixed(old, B, tol)
                        new = _snapshot(B)
                        groups = _check_conservation(old, new, A, B, tol, viol, "refine")
                        _check_refine(old, new, groups, t, lv, tol, viol)
                        changed = len(new) != len(old)
                        if pred != changed:
                            viol.append({"property": "C12",
                                         "clause": "must_be_refined disagrees with what refine does",
                                         "key": {"op": "refine", "predicate": pred},
                                         "detail": {"t": t, "must_be_refined": pred, "cells_before": len(old),
                                                    "cells_after": len(new),
                                                    "empty_cells": sum(1 for p in old if not p.alloc),
                                                    "fixed_cells": sum(1 for p in old if p.fixed)}})
                        if any(not p.alloc for p in old):
                            probe("refine_with_empty_map_cell")
                        if any(p.fixed for p in old):
                            probe("refine_with_fixed_cell")
                        if any(p.alloc and max(p.alloc.values()) == t for p in old):
                            probe("ratio_exactly_on_threshold")
                        pool.append(B)
                        entry["cells_after"] = len(new)
            elif kind == "must":
                t = o["t"]
                st, pred = run_op(lambda: A.must_be_refined(t), fault)
                if st == "aborted":
                    raise _Skip("aborted at " + str(pred))
                want = any(_should_split(p, t) for p in old)
                entry["pred"] = pred
                if pred != want:
                    viol.append({"property": "C12", "clause": "must_be_refined disagrees with what refine does",
                                 "key": {"op": "refine", "predicate": pred},
                                 "detail": {"t": t, "must_be_refined": pred, "reference": want,
                                            "empty_cells": sum(1 for p in old if not p.alloc),
                                            "fixed_cells": sum(1 for p in old if p.fixed)}})
            elif kind == "uniform":
                maxd = max(p.depth for p in old)
                est = sum(2 ** (maxd - p.depth) for p in old)
                if est > MAX_CELLS:
                    outcome = "skipped(too many cells)"
                else:
                    st, B = run_op(lambda: A.uniform_refinement_depth(), fault)
                    if st == "aborted":
                        outcome = "aborted at " + str(B)
                    else:
                        refine_ops += 1
                        _inherit_fixed(old, B, tol)
                        new = _snapshot(B)
                        groups = _check_conservation(old, new, A, B, tol, viol, "uniform")
                        _check_uniform(old, new, groups, tol, viol)
                        if maxd != min(p.depth for p in old):
                            probe("uniform_with_mixed_depths")
                        pool.append(B)
                        entry["cells_after"] = len(new)
            elif kind == "griddify":
                nxs = len({p.x0 for p in old} | {p.x1 for p in old})
                nys = len({p.y0 for p in old} | {p.y1 for p in old})
                if len(old) * nxs * nys > 4 * MAX_CELLS:
                    outcome = "skipped(too many cells)"
                else:
                    st, B = run_op(lambda: A.griddify(), fault)
                    if st == "aborted":
                        outcome = "aborted at " + str(B)
                    else:
                        refine_ops += 1
                        _inherit_fixed(old, B, tol)
                        new = _snapshot(B)
                        groups = _check_conservation(old, new, A, B, tol, viol, "griddify")
                        _check_grid(old, new, groups, tol, viol)
                        if nxs != nys:
                            probe("griddify_nx_ne_ny")
                        if nys > nxs:
                            probe("griddify_more_y_than_x_boundaries")
                        pool.append(B)
                        entry["cells_after"] = len(new)
            elif kind == "fix":
                # a cell becomes fixed after the allocation object was built (what _detect_fixed_rectangles does to its
                # receiver, and what the suite's test_griddify does by hand)
                cell = A.allocations[o["cell"] % len(A.allocations)]
                cell.rect.fixed = True
                _flag_object(pool, cell.rect)
                probe("cell_flagged_fixed_after_construction")
            elif kind == "init_alloc":
                # the library's own way of flagging cells: initial_allocation() of a netlist with a fixed module that
                # covers exactly one cell flags that cell of the *receiver* (and shares the Rectangle with the result)
                j = o["cell"] % len(A.allocations)
                cj = A.allocations[j].rect
                mods = {}
                for m in sorted({m for a in A.allocations for m in a.alloc}):
                    if A.area(m) > 0:
                        mods[m] = {"area": A.area(m), "center": [A.center(m).x, A.center(m).y]}
                fname = "FY%d" % j
                mods[fname] = {"fixed": True, "rectangles": [[cj.center.x, cj.center.y, cj.shape.w, cj.shape.h]]}
                import frame.netlist.netlist as _N
                B = None
                try:
                    net = _N.Netlist({"Modules": mods, "Nets": []})
                    B = A.initial_allocation(net)
                except (AssertionError, ZeroDivisionError) as e:
                    outcome = "skipped(initial allocation refused: %s)" % str(e)[:40]
                if B is not None:
                    pool.append(B)
                    _model_fixed[id(B)] = set()
                    entry["cells_after"] = B.num_rectangles
                    probe("initial_allocation_flagged_receiver_cell")
                if cj.fixed:  # flagged by _detect_fixed_rectangles, whether or not the call went on to succeed
                    _flag_object(pool, cj)
            elif kind == "stub":
                B = _A.Allocation(_stub_optimise(A, o["seed"], o["mode"], o["t"]))
                _inherit_fixed(old, B, tol)
                pool.append(B)
                entry["cells_after"] = B.num_rectangles
                probe("stub_" + o["mode"])
            elif kind == "persist":
                npersist += 1
                # the loop checkpoints to one file name, as a real refine-until-stable loop would
                path = "alloc_checkpoint.yaml"
                if fault is not None and fault["kind"] != "abort":
                    configured[fault["kind"]] = configured.get(fault["kind"], 0) + 1
                    if fault["kind"] == "enoent":
                        fs.plan.append({"kind": "enoent", "op": "open_w", "nth": fs.counts["open_w"] + 1})
                    else:
                        fs.plan.append({"kind": fault["kind"], "nth": fs.counts["open_w"] + 1, "byte": fault["byte"]})
                nfired = len(fs.fired)
                try:
                    A.write_yaml(path)
                    ok = True
                except OSError as e:
                    ok = False
                    outcome = "persist raised " + excname(e)
                if len(fs.fired) > nfired:
                    fk = fs.fired[-1]["kind"]
                    fired[fk] = fired.get(fk, 0) + 1
                    if ok:
                        # the injected write error was swallowed: the document on disk may be torn
                        viol.append({"property": "C02", "clause": "write fault swallowed by persist",
                                     "key": {"op": "persist", "fault": fk}, "detail": {"path": path}})
                if ok and len(fs.fired) == nfired:
                    persisted = (path, old)
                else:
                    persisted = None   # the write is not atomic: a failed checkpoint destroys the previous one
                # the plan entry may not have fired (document shorter than the byte offset): drop it
                fs.plan = []
            elif kind in ("restart", "reload"):
                if persisted is None:
                    outcome = "skipped(nothing persisted)"
                else:
                    path, snap = persisted
                    if kind == "restart":
                        pool = []  # every object of the crashed process is gone
                        _model_fixed.clear()  # ... and so are the fixed flags: the document does not carry them
                        fired["restart"] = fired.get("restart", 0) + 1
                    else:
                        probe("checkpoint_reloaded_in_process")
                    B = _A.Allocation(path)
                    _model_fixed[id(B)] = set()
                    new = _snapshot(B)
                    if any(c.depth > 0 for c in snap):
                        probe("restart_with_depth_gt_0")
                    if any(c.fixed for c in snap):
                        probe("restart_loses_fixed_flag")
                    for c_ in snap:
                        c_.fixed = False
                    same = len(new) == len(snap) and all(
                        a.key() == b.key() and a.alloc == b.alloc and a.depth == b.depth for a, b in zip(snap, new))
                    if not same:
                        for prop_, clause_ in (("C02", "allocation reloaded after restart differs from the one persisted"),
                                               ("C12", "refinement loop resumed from its checkpoint does not see the cells and "
                                                       "depths it persisted")):
                            viol.append({"property": prop_, "clause": clause_, "key": {"op": kind},
                                         "detail": {"persisted": [_fmt(c) for c in snap[:6]],
                                                    "reloaded": [_fmt(c) for c in new[:6]]}})
                    pool = [B] if kind == "restart" else pool + [B]
            elif kind == "loop":
                t = o["t"]
                cur = A
                it = 0
                sr = Rng(o["stub_seed"]) if o.get("stub_seed") is not None else None

                def body():
                    nonlocal cur, it
                    while cur.must_be_refined(t) and it < o["cap"] and cur.num_rectangles * 2 <= MAX_CELLS:
                        before = cur.num_rectangles
                        snap_b = _snapshot(cur)
                        nxt = cur.refine(t)
                        it += 1
                        if nxt.num_rectangles <= before:
                            viol.append({"property": "C12",
                                         "clause": "refine-while-needed loop makes no progress",
                                         "key": {"op": "loop"},
                                         "detail": {"t": t, "iteration": it, "cells": before,
                                                    "empty_cells": sum(1 for p in snap_b if not p.alloc),
                                                    "fixed_cells": sum(1 for p in snap_b if p.fixed)}})
                            break
                        _inherit_fixed(snap_b, nxt, tol)
                        cur = nxt
                        if sr is not None and sr.chance(0.5):
                            snap_c = _snapshot(cur)
                            cur = _A.Allocation(_stub_optimise(cur, sr.below(1 << 30), sr.choice(
                                ["dominant", "ties", "random"]), t))
                            _inherit_fixed(snap_c, cur, tol)
                    return cur

                st, B = run_op(body, fault)
                if st == "aborted":
                    outcome = "aborted at " + str(B)
                else:
                    refine_ops += it
                    entry["iterations"] = it
                    if it >= 2:
                        probe("loop_ran_2plus_iterations")
                    if it > 0:
                        pool.append(B)
        except _Skip as e:
            outcome = str(e)
        except abortmod.SimAbort:
            raise
        except Exception as e:
            outcome = "raised " + excname(e)
            prop = "C02"
            viol.append({"property": prop, "clause": "operation raised on a valid allocation",
                         "key": {"op": kind, "exc": excname(e),
                                 "units": "large" if (float(tol.size) >= 1e6 and not tol.exact) else "ordinary",
                                 # the result of the operation was rejected by the constructor's overlap test (whatever the
                                 # class or the wording of the error): an assertion-like error that speaks of an overlap
                                 "rejected_for_overlap": isinstance(e, AssertionError) and "overlap" in repr(e).lower()},
                         "detail": {"seq": seq, "op": o, "exc": repr(e)[:300], "cells": [_fmt(c) for c in old[:12]]}})
        entry["out"] = outcome
        hist.append(entry)
        sig.append((kind, outcome.split(" ")[0], (fault or {}).get("kind", "")))
        # the source allocation must still answer as before (nothing an operation does may alter its operand)
        if pool and A in pool:
            now = _snapshot(A)
            if len(now) != len(old) or any(a.key() != b.key() or a.alloc != b.alloc or a.depth != b.depth
                                            for a, b in zip(old, now)):
                viol.append({"property": "C02", "clause": "operation altered the allocation it was applied to",
                             "key": {"op": kind}, "detail": {"seq": seq}})
    return _result(case, viol, hist, probes, ops_count, fired, configured, sig, refine_ops)


def _result(case, viol, hist, probes, ops_count, fired, configured, sig, refine_ops):
    return {
        "violations": viol,
        "steps": len(hist),
        "faults_fired": fired,
        "faults_configured": configured,
        "probes": probes,
        "ops": ops_count,
        "signature": digest(sig),
        "nontrivial": refine_ops >= 2,
        "digest": digest([hist, [(v["property"], v["clause"], v["key"]) for v in viol]]),
        "history": hist if case.get("want_history") else None,
        "sample": {"run": case.get("run"), "family": case["alloc"]["family"], "cells": len(case["alloc"]["cells"]),
                   "history": hist[:10]},
    }
