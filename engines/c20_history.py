"""C20 - results do not depend on what the process did before.

System under simulation: ONE interpreter holding all process-wide state of FRAME
(rectangle tolerances, ROBDD store, legaliser registers, mutable defaults) and
2-4 clients, each owning an unrelated design.  The seeded scheduler interleaves
the clients' scripts; faults: reject (ill-formed document whose rejection comes
after process-wide state was written), io (ENOENT/EIO on a load by file name),
abort (operation killed at a seeded line event; that client is discarded).

Oracle: every client's script is also executed ALONE in a fresh forked child; for
every operation the interleaved outcome digest (verdict, exception class, full
canonical result) must equal the alone digest.  A divergence is *attributed*: the
script is re-run alone with one process-wide variable forced, before every
operation, to the value it had in the interleaved run; if that reproduces the
interleaved digests the divergence belongs to that variable.  Known findings are
keyed by the attributed variable; anything unattributed is a fresh violation.
"""
import os
import shutil
import tempfile

from sim import abort as abortmod
from sim import forkpool
from sim.digest import digest, canon
from sim.simfs import SimFS
from engines import designs, sem
from engines import c07_sat

STREAM = "c20"
RUN_TIMEOUT_S = 300.0
TIERS = {
    "quick": {"runs": 1500, "wall_s": 280, "batch": 500, "det_same": 16, "det_fresh": 2},
    "thorough": {"runs": 30000, "wall_s": 2400, "batch": 2000, "det_same": 48, "det_fresh": 4},
}
RULE = ("Each run is a seeded history of 2-4 clients in one interpreter, each owning an unrelated design whose size is "
        "within a factor 1000 of the others: load netlist/die/allocation (tree, text or file), region decomposition and "
        "refinement, initial allocation, refine/uniform/griddify/must_be_refined, orthogon recognition and "
        "touches/overlap/find_location on the design's own rectangles, SAT encodings (the C07 operation set), legaliser "
        "model construction with the verdict vector of every equation, Strop decomposition; designs are 'ordinary' or "
        "'tolerance-edge' (one gap/overlap at 1e-13..1e-4 of the size); rarely a 'bulk' client whose ordinary work is large "
        "(unrelated encodings taking the diagram store beyond 2^16 nodes; an allocation of >1000 cells), most of the time "
        "scheduled before the others; faults: reject, io, abort. Every client is "
        "re-executed alone in a fresh forked child and compared operation by operation. Non-trivial: >=2 clients with "
        ">=2 compared operations each; distinct = BLAKE2 signature of the schedule (client, op kind, outcome class, fault).")
COMPONENTS = {
    "real": ["everything under /repo reached by the operations (frame.geometry, die, netlist, allocation, utils; "
             "tools.rect.pseudobool/satmanager; tools.legalfloor model construction; floorset strop)", "pysat",
             "gekko model-building layer (no solve)"],
    "stub": ["file system (SimFS)"],
    "simulator": ["seeded interleaving of clients", "alone runs in fresh forked children", "fault plan (reject/io/abort)",
                  "attribution by forcing one process-wide variable to its interleaved trace"],
}
ASSUMPTIONS = [
    "a forked child of the zygote that executed no FRAME operation is equivalent to a fresh interpreter for process-wide state",
    "SAT encodings are compared by meaning: the model set projected on the user variables (clause order, numbering and naming of auxiliary variables are not an answer)",
    "under an abort fault a surviving client may fail loudly where the alone run succeeded, never succeed differently",
    "known findings are keyed by the process-wide variable the divergence is attributed to",
]


# ===================================================================================== generator
def _edge_design(r, die):
    """A tolerance-edge netlist: one hard module with two rectangles whose gap/overlap is delta * size."""
    # log-spaced around the tolerances in play (1e-12..1e-11 of a design's own size, up to 1000 times that for another's)
    d = r.choice([1e-13, 3e-12, 1e-11, 3e-11, 1e-10, 3e-10, 1e-9, 3e-9, 1e-8, 1e-7, 1e-6, 1e-5, 1e-4])
    return {"edge": {"delta": d, "sign": r.choice([-1, 1]),
                     "kind": r.choice(["hard_overlap", "stog_gap", "die_sliver", "die_region_outside", "near_equal_regions"])}}


def _gen_design_client(r, scale_exp, family):
    die = designs.gen_die(r, family=family, scale_exp=scale_exp)
    terminals = r.chance(0.3)
    nl = designs.gen_netlist(r, die, allow_terminals=terminals, need_centers=True)
    edge = _edge_design(r, die)["edge"] if r.chance(0.45) else None
    ops = []
    via = lambda: r.weighted([("tree", 3), ("text", 2), ("file", 2)])
    ops.append({"op": "load_net", "via": via()})
    have_die = r.chance(0.9)
    if have_die:
        ops.append({"op": "load_die", "via": via(), "with_net": r.chance(0.85)})
        if r.chance(0.6):
            ops.append({"op": "split", "r": r.choice([1.42, 1.5, 2, 3]), "n": r.randint(1, 10)})
    # an allocation to work on: the design's own initial allocation, or a document
    if have_die and r.chance(0.7):
        ops.append({"op": "init_alloc", "zero": r.chance(0.2)})
    else:
        ops.append({"op": "load_alloc", "alloc": designs.gen_allocation(r, family=family, scale_exp=scale_exp, allow_fixed=False),
                    "via": via()})
    for _ in range(r.randint(1, 6)):
        k = r.below(100)
        if k < 8:
            ops.append({"op": "split", "r": r.choice([1.42, 1.5, 2, 3]), "n": r.randint(1, 10)})
        elif k < 14:
            ops.append({"op": "init_alloc", "zero": r.chance(0.2)})
        elif k < 32:
            ops.append({"op": "refine", "t": r.choice([0.5, 0.7, 0.9, 0.95, 1.0]), "levels": r.randint(1, 2)})
        elif k < 40:
            ops.append({"op": "uniform"})
        elif k < 50:
            ops.append({"op": "griddify"})
        elif k < 56:
            ops.append({"op": "must", "t": r.choice([0.5, 0.7, 0.9])})
        elif k < 72:
            ops.append({"op": "stog"})
        elif k < 80:
            ops.append({"op": "load_alloc", "alloc": designs.gen_allocation(r, family=family, scale_exp=scale_exp, allow_fixed=False),
                        "via": via()})
        elif k < 84:
            ops.append({"op": "legal_model", "t0": r.choice([0.9, 0.9, 0.5]), "dt": r.choice([0.3, 0.3, 0.05, 1.0]),
                        "ratio": r.choice([2.0, 3.0])})
        elif k < 87:
            ops.append({"op": "legal_verdicts"})
        elif k < 89:
            ops.append({"op": "legal_time", "amount": r.choice([1, 5, 30])})
        elif k < 93:
            ops.append({"op": "load_net", "via": via()})
        elif k < 97:
            # writing a document is an operation too: its text must not depend on what the process wrote before
            ops.append({"op": "dump", "what": r.choice(["alloc", "alloc", "net", "die"])})
        else:
            ops.append({"op": "strop", "matrix": _gen_matrix(r)})
    if any(o["op"] == "legal_model" for o in ops) and r.chance(0.7):
        ops.append({"op": "legal_verdicts"})
    if r.chance(0.2):
        # an ill-formed document arrives in the middle of the flow: the verdict (rejected) is an answer like any other
        ops.insert(r.randint(1, len(ops)), {"op": "load_bad_alloc", "how": r.choice(["overlap", "overlap", "contained", "ratio"])})
    if edge and edge["kind"] == "near_equal_regions":
        ops.insert(2 if have_die else 1, {"op": "split", "r": r.choice([2, 3]), "n": r.randint(3, 5)})
    return {"kind": "design", "die": die, "net": nl, "edge": edge, "ops": ops,
            "yaml_style": r.weighted([(None, 6), ("header11", 2), ("yes", 2)])}


def _gen_matrix(r):
    rows, cols = r.randint(1, 4), r.randint(1, 4)
    return "\n".join("".join("1" if r.chance(0.7) else "0" for _ in range(cols)) for _ in range(rows))


def _gen_sat_client(r, nvars, pool=None):
    pool = [] if pool is None else pool
    planted = tuple(r.below(2) for _ in range(nvars)) if r.chance(0.8) else None
    ops = [c07_sat._gen_post(r, nvars, pool, planted) for _ in range(r.randint(2, 7))]
    if r.chance(0.6):
        ops.append({"op": "solve"})
    if r.chance(0.25):
        ops.append({"op": "amo_big", "n": r.choice([500, 900, 1100, 1500])})
    return {"kind": "sat", "nvars": nvars, "ops": ops}


def _gen_legal_client(r, scale_exp, family):
    """A design in the legaliser's domain: every module has rectangles, no terminals."""
    die = designs.gen_die(r, family=family, scale_exp=scale_exp, max_regions=0)
    nl = designs.gen_netlist(r, die, nmods=r.randint(1, 4), kinds=["soft", "soft", "hard", "fixed"], allow_terminals=False,
                             allow_regions=False)
    for m in nl["modules"]:
        if m["kind"] == "soft" and not m.get("boxes"):
            bs = designs.free_boxes(die, r, 1)
            m["boxes"] = designs.stog_boxes(r, bs[0]) if bs and r.chance(0.5) else (bs or [(0, 0, 1, 1)])
            m["boxes"] = [b for b in m["boxes"] if b[0] >= 0 and b[1] >= 0]
        m.pop("area_regions", None)
    ops = [{"op": "load_net", "via": "tree"}, {"op": "load_die", "via": "tree", "with_net": False},
           {"op": "legal_model", "t0": r.choice([0.9, 0.9, 0.5]), "dt": r.choice([0.3, 0.3, 0.05, 1.0]), "ratio": r.choice([2.0, 3.0])}]
    for _ in range(r.randint(1, 3)):
        ops.append(r.choice([{"op": "legal_verdicts"}, {"op": "legal_verdicts"}, {"op": "legal_time", "amount": r.choice([1, 5, 30])},
                             {"op": "stog"}]))
    ops.append({"op": "legal_verdicts"})
    return {"kind": "design", "die": die, "net": nl, "edge": None, "ops": ops}


def _gen_twin(r, src):
    """Same die, same module geometry; module kinds are permuted (fixed <-> hard), and the script loads an allocation made
    of exactly the die-sized grid the other design's cells come from."""
    die = dict(src["die"])
    nl = src["net"]
    mods = []
    for m in nl["modules"]:
        m = dict(m)
        if m["kind"] == "fixed" and r.chance(0.7):
            m["kind"] = "hard"
        elif m["kind"] == "hard" and r.chance(0.3):
            m["kind"] = "fixed"
            m.pop("flip", None)
        mods.append(m)
    # an allocation whose cells are the unit... the same guillotine cells as a plain grid over the die
    nx, ny = die["nx"], die["ny"]
    gx, gy = r.choice([1, 2, nx]), r.choice([1, 2, ny])
    xs = sorted({round(i * nx / gx) for i in range(gx + 1)})
    ys = sorted({round(j * ny / gy) for j in range(gy + 1)})
    cells = []
    names = [m["name"] for m in mods if m["kind"] == "soft"] or ["M0"]
    for i in range(len(xs) - 1):
        for j in range(len(ys) - 1):
            cells.append({"box": (xs[i], ys[j], xs[i + 1], ys[j + 1]), "alloc": {r.choice(names): r.choice([0.3, 0.5, 0.9])},
                          "depth": 0, "fixed": False})
    for m in mods:  # and one cell per rectangle of a fixed/hard module of the source design
        if m.get("boxes") and len(cells) < 30:
            for b in m["boxes"][:2]:
                if all(designs.overlap_area(b, c["box"]) == 0 for c in cells):
                    cells.append({"box": tuple(b), "alloc": {names[0]: 0.4}, "depth": 0, "fixed": False})
    alloc = {"family": die["family"], "scale_exp": die["scale_exp"], "nx": nx, "ny": ny, "cells": cells}
    via = lambda: r.weighted([("tree", 3), ("text", 2), ("file", 2)])
    ops = [{"op": "load_net", "via": via()}, {"op": "load_die", "via": via(), "with_net": r.chance(0.7)}]
    for _ in range(r.randint(2, 5)):
        ops.append(r.choice([{"op": "init_alloc", "zero": False}, {"op": "refine", "t": r.choice([0.5, 0.9, 1.0]), "levels": 1},
                             {"op": "stog"}, {"op": "griddify"}, {"op": "load_alloc", "alloc": alloc, "via": via()},
                             {"op": "split", "r": 2, "n": r.randint(1, 6)}, {"op": "uniform"}]))
    # the source design loads the very same allocation document and runs the initial allocation of a netlist whose fixed
    # module covers one of its cells (which flags that cell of the receiver)
    if r.chance(0.7):
        src["ops"] = src["ops"] + [{"op": "load_alloc", "alloc": alloc, "via": via()}, {"op": "alloc_init", "cell": r.below(30)}]
        ops += [{"op": "load_alloc", "alloc": alloc, "via": via()}, {"op": "refine", "t": r.choice([0.5, 0.9, 1.0]), "levels": 1},
                {"op": "uniform"}]
    return {"kind": "design", "die": die, "net": dict(nl, modules=mods), "edge": None, "ops": ops}


def _gen_reject_client(r, scale_exp, family):
    """A client whose only operation is the load of an ill-formed document that is rejected after the loader has already
    touched process-wide state (hard module with grossly overlapping rectangles; die region sticking out)."""
    die = designs.gen_die(r, family=family, scale_exp=scale_exp, max_regions=0)
    what = r.choice(["hard_overlap", "region_outside", "unknown_net_module", "big_unencodable_constraint", "alloc_overlap"])
    return {"kind": "reject", "die": die, "what": what, "ops": [{"op": "load_bad"}]}


def _gen_bulk_client(r, what):
    """A client whose work is ordinary but large: unrelated constraint encodings that take the process-wide diagram store
    beyond 2^16 nodes, or an allocation of more than a thousand cells."""
    if what == "flood":
        return {"kind": "bulk", "ops": [{"op": "flood", "target": (1 << 16) + r.choice([4, 100, 3000])}]}
    gx = r.randint(26, 34)
    gy = (1001 + r.randint(0, 60)) // gx + 1
    return {"kind": "bulk", "ops": [{"op": "big_alloc", "gx": gx, "gy": gy, "unit": r.choice([1.0, 0.5, 10.0])}]}


def gen_case(r, index, tier):
    nclients = r.weighted([(2, 5), (3, 3), (4, 1)] if tier != "thorough" else [(2, 3), (3, 4), (4, 3)])
    base = r.choice([-1, 0, 0, 1])
    clients = []
    sat_pool = []   # SAT clients of one run draw from one pool: the same inequality is posted to several managers
    nvars = r.randint(2, 5)
    for c in range(nclients):
        k = r.below(100)
        scale_exp = base + r.choice([0, 0, 1, 2]) if base <= 0 else base + r.choice([0, 1])
        scale_exp = max(-1, min(2, scale_exp))
        family = r.weighted([("dyadic", 3), ("decimal", 4), ("thirds", 1)])
        if k < 52:
            clients.append(_gen_design_client(r, scale_exp, family))
        elif k < 62:
            clients.append(_gen_legal_client(r, scale_exp, family))
        elif k < 84:
            clients.append(_gen_sat_client(r, nvars, sat_pool))
        else:
            clients.append(_gen_reject_client(r, scale_exp, family))
    # twins: two clients whose designs coincide geometrically (same lattice, same cells / rectangles) but play different
    # roles - what is fixed in one is ordinary in the other - so that anything cached or shared by *value* of a rectangle
    # descriptor between designs shows
    if r.chance(0.35):
        ds = [i for i, c in enumerate(clients) if c["kind"] == "design"]
        if ds:
            src = clients[r.choice(ds)]
            twin = _gen_twin(r, src)
            if len(clients) < 4:
                clients.append(twin)
            else:
                clients[r.choice([i for i in range(len(clients)) if clients[i] is not src])] = twin
            nclients = len(clients)
    # large histories (rare, they are slow): a bulk client precedes (most of the time) what the others do, and the others
    # include at least one client of the kind whose process-wide tables the bulk work has filled
    bulk = r.weighted([(None, 0.975), ("flood", 0.01), ("big_alloc", 0.015)])
    if os.environ.get("VERIF_C20_BULK"):
        bulk = os.environ["VERIF_C20_BULK"]
    if bulk == "flood":
        if not any(c["kind"] == "sat" for c in clients):
            clients[r.below(len(clients))] = _gen_sat_client(r, nvars, sat_pool)
    elif bulk == "big_alloc":
        if not any(c["kind"] == "reject" and c["what"] == "alloc_overlap" for c in clients):
            rc = _gen_reject_client(r, 0, "dyadic")
            rc["what"] = "alloc_overlap"
            clients[r.below(len(clients))] = rc
    if bulk:
        clients.append(_gen_bulk_client(r, bulk))
        nclients = len(clients)
    # seeded interleaving
    pos = [0] * nclients
    live = list(range(nclients))
    sched = []
    while live:
        c = r.choice(live)
        sched.append([c, pos[c]])
        pos[c] += 1
        if pos[c] >= len(clients[c]["ops"]):
            live.remove(c)
    if bulk and r.chance(0.75):
        head = [st for st in sched if st[0] == nclients - 1]
        sched = head + [st for st in sched if st not in head]
    # scale mix with a definite order: now and then the largest design of the run does its loading and region
    # decomposition before anybody else starts (first-come process-wide state is then set by the large design)
    ds = [i for i, c in enumerate(clients) if c["kind"] == "design"]
    if len(ds) >= 2 and r.chance(0.4):
        big = max(ds, key=lambda i: (clients[i]["die"]["scale_exp"], clients[i]["die"]["nx"]))
        head = [st for st in sched if st[0] == big][:3]
        sched = head + [st for st in sched if st not in head]
    faults = []
    if r.chance(0.2):
        cands = [i for i, (c, k) in enumerate(sched) if clients[c]["kind"] in ("design", "sat")]
        if cands:
            i = r.choice(cands)
            faults.append({"at": i, "kind": "abort", "line_event": r.randint(1, r.choice([40, 400, 4000]))})
    if r.chance(0.15):
        cands = [i for i, (c, k) in enumerate(sched) if clients[c]["ops"][k].get("via") == "file"]
        if cands:
            faults.append({"at": r.choice(cands), "kind": r.choice(["enoent", "eio_read"])})
    return {"engine": "c20", "clients": clients, "schedule": sched, "faults": faults}


def units(case):
    return len(case["schedule"])


def restrict(case, keep):
    """Keeps the scheduled steps in `keep`; scripts are re-indexed so that every client keeps the kept steps in order."""
    keepset = set(keep)
    newpos = {}
    clients = [dict(c, ops=[]) for c in case["clients"]]
    sched = []
    faults = []
    fault_at = {f["at"]: f for f in case["faults"]}
    for i, (c, k) in enumerate(case["schedule"]):
        if i in keepset:
            clients[c]["ops"].append(case["clients"][c]["ops"][k])
            sched.append([c, len(clients[c]["ops"]) - 1])
            if i in fault_at:
                faults.append(dict(fault_at[i], at=len(sched) - 1))
    return dict(case, clients=clients, schedule=sched, faults=faults)


def simplify(case):
    if case["faults"]:
        for j in range(len(case["faults"])):
            yield dict(case, faults=case["faults"][:j] + case["faults"][j + 1:])
    for ci, c in enumerate(case["clients"]):
        if c["kind"] == "design":
            nl = c["net"]
            for j in range(len(nl["nets"])):
                nn = dict(nl, nets=nl["nets"][:j] + nl["nets"][j + 1:])
                yield _with_client(case, ci, dict(c, net=nn))
            for j in range(len(nl["modules"])):
                if len(nl["modules"]) <= 1:
                    break
                name = nl["modules"][j]["name"]
                nets = [dict(e, mods=[x for x in e["mods"] if x != name]) for e in nl["nets"]]
                nets = [e for e in nets if len(e["mods"]) >= 2]
                yield _with_client(case, ci, dict(c, net=dict(nl, modules=nl["modules"][:j] + nl["modules"][j + 1:], nets=nets)))
            d = c["die"]
            for j in range(len(d["regions"])):
                yield _with_client(case, ci, dict(c, die=dict(d, regions=d["regions"][:j] + d["regions"][j + 1:])))
            for k, o in enumerate(c["ops"]):
                if o.get("via") in ("text", "file"):
                    ops = c["ops"][:k] + [dict(o, via="tree")] + c["ops"][k + 1:]
                    yield _with_client(case, ci, dict(c, ops=ops))


def _with_client(case, ci, newc):
    return dict(case, clients=case["clients"][:ci] + [newc] + case["clients"][ci + 1:])


# ===================================================================================== system side
_m = {}


def setup():
    import frame.utils.utils as U
    import frame.die.die as D
    import frame.netlist.netlist as N
    import frame.allocation.allocation as A
    import frame.geometry.geometry as G
    import tools.rect.pseudobool as PB
    import tools.rect.satmanager as SAT
    import tools.legalfloor.legalfloor as LF
    import tools.legalfloor.expression_tree as ET
    import tools.floorset_parser.floor_set_manager.strop as ST
    _m.update(U=U, D=D, N=N, A=A, G=G, PB=PB, SAT=SAT, LF=LF, ET=ET, ST=ST)
    c07_sat.setup()


_owners = {}  # id(epsilon expression) -> (client that built the owning Model, the expression itself)


def _s1():
    G, ET, PB = _m["G"], _m["ET"], _m["PB"]
    try:
        own = _owners.get(id(ET.epsilon))
        le = [float(ET.epsilon.evaluate()), own[0] if own else "?"]
    except Exception:
        le = None
    R = G.Rectangle     # through the public interface only (where the values are kept is the library's business)
    re_ = [-1.0, -1.0]
    if R.epsilon_defined():
        re_[0] = R.distance_epsilon()
        try:
            re_[1] = R.area_epsilon()
        except AssertionError:
            pass    # an interrupted set_epsilon left the distance tolerance set and the area tolerance undefined
    return {"rect_epsilon": re_, "legal_epsilon": le,
            "debug_print": ET.debug_print, "named_variables": len(ET.named_variables), "store": len(PB.memory)}


def _force(var, value):
    G, ET = _m["G"], _m["ET"]
    if var == "rect_epsilon":
        if value[0] >= 0:
            G.Rectangle.set_epsilon(value[0], value[1])
        else:
            G.Rectangle.undefine_epsilon()
    elif var == "legal_epsilon":
        if value is not None:
            ET.set_epsilon(ET.ExpressionTree(None, float(value[0])))
            _owners[id(ET.epsilon)] = (value[1], ET.epsilon)
    elif var == "debug_print":
        ET.debug_print = value


def _edge_tree(c, co):
    """Netlist tree of a tolerance-edge design (replaces the generated netlist)."""
    e = c["edge"]
    size = co.f(c["die"]["nx"])
    d = e["delta"] * size * e["sign"]
    u = co.f(1)
    if e["kind"] == "hard_overlap":
        # two rectangles of a hard module overlapping by a strip of width |d| (sign>0) or separated by it
        return {"Modules": {"H": {"hard": True, "rectangles": [[2 * u, 2 * u, 2 * u, 2 * u], [4 * u - d, 2 * u, 2 * u, 2 * u]]},
                            "S": {"area": u * u, "center": [u, u]}}, "Nets": [["H", "S"]]}
    if e["kind"] == "stog_gap":
        # branch on the north side of the trunk at distance d
        return {"Modules": {"H": {"hard": True, "rectangles": [[2 * u, 2 * u, 2 * u, 2 * u], [2 * u, 3.5 * u + d, u, u]]},
                            "S": {"area": u * u, "center": [u, u]}}, "Nets": [["H", "S"]]}
    return None


def _die_edge_tree(c, co):
    e = c["edge"]
    if e is None or e["kind"] not in ("die_sliver", "die_region_outside", "near_equal_regions"):
        return None
    W, H = co.f(c["die"]["nx"]), co.f(c["die"]["ny"])
    d = e["delta"] * W
    if e["kind"] == "die_region_outside":
        # a blockage on the right border that sticks out of the die by d (sign > 0) or stops d short of it
        return {"width": W, "height": H, "regions": [[W - W / 8 + d * e["sign"] / 2, H / 2, W / 4 + d * e["sign"], H, "#"]]}
    if e["kind"] == "near_equal_regions":
        # a thin blockage column splits the die into two ground regions whose widths differ by a relative 10*delta..
        rel = min(1e-3, max(1e-6, e["delta"] * 10))
        w1 = (W - W / 16) / (2 + rel)
        w2 = w1 * (1 + rel)
        return {"width": W, "height": H, "regions": [[w1 + W / 32, H / 2, W / 16, H, "#"]]} if abs(w1 + W / 16 + w2 - W) < 1e-9 * W else None
    # two blockages whose facing sides are d apart (sign>0: sliver of ground between them; sign<0: overlap)
    return {"width": W, "height": H, "regions": [[W / 4, H / 2, W / 2, H, "#"], [W / 2 + W / 8 + d * e["sign"], H / 2, W / 4, H, "#"]]}


class _DesignClient:
    def __init__(self, cid, c, fs):
        self.cid, self.c, self.fs = cid, c, fs
        self.co = designs.Coords(c["die"]["family"], c["die"]["scale_exp"])
        self.net = self.die = self.alloc = self.model = None
        self.nfile = 0
        self.dead = False
        self.yaml_style = c.get("yaml_style")

    def _src(self, tree, via, stem):
        U = _m["U"]
        if via == "tree":
            return tree
        text = U.write_yaml(tree)
        style = getattr(self, "yaml_style", None)
        if style == "header11":
            text = "%YAML 1.1\n---\n" + text      # a document that declares the older YAML version
        elif style == "yes":
            text = text.replace(": true", ": yes")   # hand-written booleans (strings under YAML 1.2: the loader must reject them)
        if via == "text":
            return text if (": " in text or "\n" in text) else tree
        # a flow that handles several designs reuses its scratch file names: every client writes its document under the
        # same name just before loading it
        p = self.fs.path("%s.yaml" % stem)
        self.fs.put(p, text)
        return p

    def net_tree(self):
        t = None
        if self.c.get("edge") and self.c["edge"]["kind"] in ("hard_overlap", "stog_gap"):
            t = _edge_tree(self.c, self.co)
        return t or designs.netlist_tree(self.c["net"], self.c["die"])

    def die_tree(self):
        return _die_edge_tree(self.c, self.co) or designs.die_tree(self.c["die"])

    def run(self, o):
        N, D, A, G = _m["N"], _m["D"], _m["A"], _m["G"]
        k = o["op"]
        if k == "load_net":
            self.net = N.Netlist(self._src(self.net_tree(), o["via"], "net"))
            wl = None
            if all(m.center is not None for m in self.net.modules):
                wl = self.net.wire_length
            return {"net": sem.netlist_sem(self.net, roles=True, order_rects=True), "wl": wl,
                    "stogs": [m.has_stog for m in self.net.modules]}
        if k == "load_die":
            net = self.net if o.get("with_net") else None
            self.die = D.Die(self._src(self.die_tree(), o["via"], "die"), net)
            return sem.die_sem(self.die, full=True)
        if k == "split":
            if self.die is None:
                return "skipped"
            if any(r.aspect_ratio > 1e3 for r in self.die.ground_regions + self.die.specialized_regions):
                return "skipped"  # a sliver region needs 2^k pieces to reach the aspect-ratio limit
            self.die.split_refinable_regions(o["r"], o["n"])
            return sem.die_sem(self.die, full=True)
        if k == "init_alloc":
            if self.die is None or self.die.netlist is None:
                return "skipped"
            if any(m.is_terminal or (m.center is None and m.num_rectangles == 0) for m in self.die.netlist.modules):
                return "skipped"
            self.alloc = A.create_initial_allocation(self.die, o.get("zero", False))
            return sem.alloc_sem(self.alloc)
        if k == "load_alloc":
            desc = _norm_alloc(o["alloc"])
            self.alloc = A.Allocation(self._src(designs.alloc_tree(desc), o["via"], "alloc"))
            return sem.alloc_sem(self.alloc)
        if k == "dump":
            obj = {"alloc": self.alloc, "net": self.net, "die": self.die}[o["what"]]
            if obj is None:
                return "skipped"
            return {"text": obj.write_yaml()}
        if k == "load_bad_alloc":
            u = self.co.f(1)
            if o["how"] == "overlap":
                tree = [[[2 * u, 2 * u, 2 * u, 2 * u], {"B": 0.5}], [[3 * u, 2 * u, 2 * u, 2 * u], {"B": 0.5}]]
            elif o["how"] == "contained":
                tree = [[[2 * u, 2 * u, 4 * u, 4 * u], {"B": 0.5}], [[2 * u, 2 * u, u, u], {"C": 0.5}]]
            else:
                tree = [[[2 * u, 2 * u, 2 * u, 2 * u], {"B": 1.5}]]
            A.Allocation(tree)      # must raise; the step's answer is the exception class
            return "accepted"
        if k == "alloc_init":
            a = self.alloc
            if a is None:
                return "skipped"
            cj = a.allocations[o["cell"] % len(a.allocations)].rect
            mods = {}
            for m in sorted({m for x in a.allocations for m in x.alloc}):
                if a.area(m) > 0:
                    mods[m] = {"area": a.area(m), "center": [a.center(m).x, a.center(m).y]}
            mods["FY"] = {"fixed": True, "rectangles": [[cj.center.x, cj.center.y, cj.shape.w, cj.shape.h]]}
            self.alloc = a.initial_allocation(N.Netlist({"Modules": mods, "Nets": []}))
            return sem.alloc_sem(self.alloc)
        if k in ("refine", "uniform", "griddify", "must"):
            a = self.alloc
            if a is None:
                return "skipped"
            if k == "must":
                return a.must_be_refined(o["t"])
            if k == "refine":
                if a.num_rectangles * 2 ** o["levels"] > 300:
                    return "skipped"
                self.alloc = a.refine(o["t"], o["levels"])
            elif k == "uniform":
                maxd = max(x.depth for x in a.allocations)
                if sum(2 ** (maxd - x.depth) for x in a.allocations) > 300:
                    return "skipped"
                self.alloc = a.uniform_refinement_depth()
            else:
                nxs = len({x.rect.center.x - x.rect.shape.w / 2 for x in a.allocations} | {x.rect.center.x + x.rect.shape.w / 2 for x in a.allocations})
                nys = len({x.rect.center.y - x.rect.shape.h / 2 for x in a.allocations} | {x.rect.center.y + x.rect.shape.h / 2 for x in a.allocations})
                if nxs * nys > 400:
                    return "skipped"
                self.alloc = a.griddify()
            return sem.alloc_sem(self.alloc)
        if k == "stog":
            if self.net is None:
                return "skipped"
            out = []
            rects = []
            for m in self.net.modules:
                if m.num_rectangles > 0:
                    lst = [r.duplicate() for r in m.rectangles]
                    ok = G.create_stog(lst)
                    out.append([m.name, ok, [sem.rect_spec(r) + [r.location.name] for r in lst]])
                    rects += m.rectangles
            rects = rects[:8]
            rel = [[a.touches(b), a.overlap(b), a.find_location(b).name] for a in rects for b in rects if a is not b]
            return {"stogs": out, "relations": rel}
        if k == "legal_model":
            LF = _m["LF"]
            if self.net is None or self.die is None:
                return "skipped"
            if any(m.num_rectangles == 0 or m.is_terminal for m in self.net.modules) or len(self.net.modules) > 5:
                return "skipped"
            ml, al, xl, yl, wl, hl, hyper, og = LF.netlist_to_utils(self.net)
            self.model = LF.Model(ml, al, xl, yl, wl, hl, self.die.width, self.die.height, hyper, o["ratio"], og, o["t0"], o["dt"], 1)
            _owners[id(_m["ET"].epsilon)] = (self.cid, _m["ET"].epsilon)
            return self._verdicts()
        if k == "legal_verdicts":
            if self.model is None:
                return "skipped"
            return self._verdicts()
        if k == "legal_time":
            if self.model is None:
                return "skipped"
            self.model.time_advance(o["amount"])
            return self._verdicts()
        if k == "strop":
            ST = _m["ST"]
            s = ST.Strop(o["matrix"])
            insts = []
            if s.is_strop:
                for inst in s.instances():
                    insts.append(sorted((r.rows.low, r.rows.high, r.columns.low, r.columns.high) for r in inst.rectangles()))
            def _val(x):
                return x() if callable(x) else x
            return {"is_strop": s.is_strop, "instances": insts, "widths": list(_val(s.get_width)), "rows": _val(s.num_rows),
                    "cols": _val(s.num_columns)}
        raise ValueError(k)

    def _verdicts(self):
        mw = self.model.gekko
        out = [["variables", [v.data["name"] for v in mw.variable_list]],
               ["objective", float(mw.objective.evaluate())],
               ["dif_cost", float(_evaluate(mw.dif_cost_objective()))]]
        for group in sorted(mw.constraints):
            for eq in mw.constraints[group]:
                out.append([group, eq.name, bool(eq.is_equation_met())])
        for macro in mw.macros:
            for ns, eq in macro.get_constraints(mw):
                out.append([ns, eq.name, bool(eq.is_equation_met())])
        return out


def _evaluate(x):
    return x.evaluate() if hasattr(x, "evaluate") else x


def _norm_alloc(a):
    from fractions import Fraction
    cells = []
    for c in a["cells"]:
        cells.append(dict(c, box=tuple(Fraction(v) if isinstance(v, str) else v for v in c["box"])))
    return dict(a, cells=cells)


class _SatClient:
    def __init__(self, cid, c):
        self.cl = c07_sat._Client(cid, c["nvars"])
        self.dead = False

    def run(self, o):
        cl = self.cl
        if o["op"] == "amo_big":
            # a chained at-most-one over a group far beyond the small sizes: deep recursion in the encoder; whether the
            # interpreter accepts it must not depend on what the process did before
            lits = [cl.m.newvar("b%d" % i) for i in range(o["n"])]
            cl.m.heuleencoding(lits, 3)
            return {"clauses": len(cl.m.clauses)}
        if o["op"] == "solve":
            res = cl.m.solve()
            return {"sat": bool(res)}   # which model is exposed is the solver's choice, not an answer of the encoding
        c07_sat._apply(cl, o)
        # the answer of an encoding is its meaning (the model set on the user's variables).  The text the manager would
        # write (DIMACS) is recorded next to it as an observation only: clause order and the numbering of auxiliary variables
        # may legitimately follow the node numbers of the process-wide store (neutral refactoring NE-3 does exactly that)
        return {"models": sorted(cl.projected_models()), "_cnf": digest(cl.m.tocnf())}


class _BulkClient:
    def __init__(self, cid, c):
        self.c = c
        self.dead = False

    def run(self, o):
        if o["op"] == "flood":
            c07_sat._flood(o["target"])
            return "done"
        A = _m["A"]
        u = o["unit"]
        cells = [[[(i + 0.5) * u, (j + 0.5) * u, u, u], {"M%d" % ((i + j) % 3): 0.5}] for i in range(o["gx"]) for j in range(o["gy"])]
        a = A.Allocation(cells)
        return {"cells": a.num_rectangles, "area": a.area("M0")}


class _RejectClient:
    def __init__(self, cid, c):
        self.c = c
        self.dead = False

    def run(self, o):
        N, D = _m["N"], _m["D"]
        co = designs.Coords(self.c["die"]["family"], self.c["die"]["scale_exp"])
        u = co.f(1)
        W, H = co.f(self.c["die"]["nx"]), co.f(self.c["die"]["ny"])
        w = self.c["what"]
        if w == "big_unencodable_constraint":
            # the SAT layer refuses an equality over several hundred literals (it cannot encode it)
            sm = _m["SAT"].SATManager()
            e = _m["PB"].Expr()
            for i in range(600):
                e = e + sm.newvar("r%d" % i)
            sm.pseudoboolencoding(e == 300)
        elif w == "alloc_overlap":
            _m["A"].Allocation([[[2 * u, 2 * u, 2 * u, 2 * u], {"B": 0.5}], [[3 * u, 2 * u, 2 * u, 2 * u], {"B": 0.5}]])
        elif w == "hard_overlap":
            N.Netlist({"Modules": {"B": {"hard": True, "rectangles": [[2 * u, 2 * u, 2 * u, 2 * u], [3 * u, 2 * u, 2 * u, 2 * u]]}}, "Nets": []})
        elif w == "region_outside":
            D.Die({"width": W, "height": H, "regions": [[W, H / 2, W / 2, H / 2, "#"]]})
        else:
            N.Netlist({"Modules": {"B": {"area": u * u, "center": [u, u]}}, "Nets": [["B", "ZZ"]]})
        return "accepted"


def _exec(arg):
    """Executes the schedule (or one client's part of it).  Returns per scheduled step a record or None."""
    case, only, force = arg
    root = os.path.abspath(os.environ.get("FRAME_REPO", "/repo")) + os.sep
    scratch = tempfile.mkdtemp(prefix="frame-verif-", dir=os.environ.get("VERIF_SCRATCH") or ("/dev/shm" if os.path.isdir("/dev/shm") else None))
    tempfile.tempdir = scratch
    os.makedirs(os.path.join(scratch, "fs"))
    fs = SimFS(mirror=os.path.join(scratch, "fs"))
    _m["U"].open = fs.open
    clients = {}
    out = []
    fault_at = {f["at"]: f for f in case["faults"]} if only is None else {}
    try:
        for i, (c, k) in enumerate(case["schedule"]):
            if only is not None and c != only:
                out.append(None)
                continue
            desc = case["clients"][c]
            if c not in clients:
                if desc["kind"] == "design":
                    clients[c] = _DesignClient(c, desc, fs)
                elif desc["kind"] == "sat":
                    clients[c] = _SatClient(c, desc)
                elif desc["kind"] == "bulk":
                    clients[c] = _BulkClient(c, desc)
                else:
                    clients[c] = _RejectClient(c, desc)
            cl = clients[c]
            o = desc["ops"][k]
            for fo in (force or []):
                if str(i) in fo["trace"]:
                    _force(fo["var"], fo["trace"][str(i)])
            rec = {"c": c, "op": o["op"], "s1": _s1(), "fault": None}
            if cl.dead:
                rec.update(out="dead", digest=None)
                out.append(rec)
                continue
            f = fault_at.get(i)
            try:
                if f is not None and f["kind"] == "abort":
                    ab = abortmod.Aborter(root, f["line_event"])
                    st, val = ab.run(cl.run, o)
                    if st == "aborted":
                        cl.dead = True
                        rec.update(out="aborted", digest=None, fault="abort", where=val)
                        out.append(rec)
                        continue
                    res = val
                else:
                    if f is not None and o.get("via") == "file":
                        if f["kind"] == "enoent":
                            fs.plan.append({"kind": "enoent", "op": "open_r", "nth": fs.counts["open_r"] + 1})
                        else:
                            fs.plan.append({"kind": "eio_read", "nth": fs.counts["read"] + 1})
                    nf = len(fs.fired)
                    try:
                        res = cl.run(o)
                    finally:
                        if len(fs.fired) > nf:
                            rec["fault"] = fs.fired[-1]["kind"]
                        fs.plan = []
                if isinstance(res, dict) and "_cnf" in res:
                    rec["cnf"] = res.pop("_cnf")
                rec.update(out="ok", digest=digest(res), short=_short(res), skipped=(res == "skipped"))
            except Exception as e:
                rec.update(out="raised", digest="exc:" + type(e).__name__, short=repr(e)[:160])
                if rec["fault"] in ("enoent", "eio_read"):
                    cl.dead = True  # the client gives up after an I/O error
            out.append(rec)
    finally:
        if scratch:
            shutil.rmtree(scratch, ignore_errors=True)
    return out


def _short(res):
    s = repr(canon(res))
    return s if len(s) <= 200 else s[:200] + "..."


def _sub(case, only=None, force=None):
    st, val = forkpool.run_in_child(_exec, (case, only, force), timeout_s=120.0)
    if st != "ok":
        raise RuntimeError("sub-run failed: %s" % (val,))
    return val


def run_case(case):
    nclients = len(case["clients"])
    viol = []
    probes = {}
    fired = {}
    configured = {}
    ops_count = {}

    def probe(name, n=1):
        probes[name] = probes.get(name, 0) + n

    inter = _sub(case)
    alone = {c: _sub(case, only=c) for c in range(nclients) if any(cc == c for cc, _ in case["schedule"])}
    for f in case["faults"]:
        configured[f["kind"]] = configured.get(f["kind"], 0) + 1
    compared = {c: 0 for c in range(nclients)}
    sig = []
    hist = []
    diverged = {}
    for i, rec in enumerate(inter):
        c = rec["c"]
        ops_count[rec["op"]] = ops_count.get(rec["op"], 0) + 1
        if rec.get("skipped"):
            probe("op_skipped_" + rec["op"])
        if rec.get("fault"):
            fired[rec["fault"]] = fired.get(rec["fault"], 0) + 1
        if rec["out"] == "raised" and case["clients"][c]["kind"] == "reject":
            fired["reject"] = fired.get("reject", 0) + 1
            g = rec["s1"]["rect_epsilon"]
            probe("reject_client_ran")
        a = alone[c][i]
        hist.append({"i": i, "c": c, "op": rec["op"], "out": rec["out"], "digest": rec.get("digest"), "alone": a.get("digest"),
                     "fault": rec.get("fault")})
        sig.append((c, rec["op"], rec["out"], rec.get("fault") or ""))
        if rec["out"] in ("dead", "aborted") or rec.get("fault") in ("enoent", "eio_read"):
            continue
        if c in diverged:
            continue
        compared[c] += 1
        if rec.get("cnf") != a.get("cnf") and rec["digest"] == a["digest"]:
            probe("cnf_text_differs_from_the_alone_run_with_the_same_meaning")
        if rec["digest"] != a["digest"]:
            aborted_before = any(r["out"] == "aborted" for r in inter[:i] if r is not None)
            if aborted_before and rec["out"] == "raised" and a["out"] == "ok":
                probe("failed_loudly_after_an_abort")
                diverged[c] = None
                continue
            diverged[c] = i
    # attribution of every divergence
    for c, i in diverged.items():
        if i is None:
            continue
        rec, a = inter[i], alone[c][i]
        diff_vars = [v for v in ("rect_epsilon", "legal_epsilon", "debug_print") if rec["s1"][v] != a["s1"][v]]
        attributed = None

        def trace_of(var):
            # force the variable only where its interleaved value differs from the alone value (forcing it elsewhere
            # would freeze state the client itself legitimately changes, e.g. its own model's annealing time)
            return {"var": var, "trace": {str(j): inter[j]["s1"][var] for j, (cc, _) in enumerate(case["schedule"])
                                          if cc == c and j <= i and inter[j]["s1"][var] != alone[c][j]["s1"][var]}}

        attempts = [[v] for v in diff_vars] + ([diff_vars] if len(diff_vars) > 1 else [])
        for vars_ in attempts:
            forced = _sub(case, only=c, force=[trace_of(v) for v in vars_])
            if all(forced[j]["digest"] == inter[j]["digest"] for j, (cc, _) in enumerate(case["schedule"])
                   if cc == c and j <= i and inter[j]["out"] not in ("dead", "aborted")):
                attributed = "+".join(vars_)
                break
        edge = case["clients"][c].get("edge") is not None
        key = {"attributed_to": attributed or "unattributed"}
        if attributed is None:
            key["op"] = rec["op"]
        elif "rect_epsilon" in attributed:
            vals = list(rec["s1"]["rect_epsilon"]) + list(a["s1"]["rect_epsilon"])
            key["tolerances"] = "finite" if all(x < float("inf") for x in vals) else "infinite"
        viol.append({"property": "C20", "clause": "result depends on what the process did before", "key": key,
                     "detail": {"step": i, "client": c, "op": rec["op"], "interleaved": rec.get("short"), "alone": a.get("short"),
                                "family": "tolerance-edge" if edge else "ordinary", "s1_interleaved": rec["s1"],
                                "s1_alone": a["s1"], "candidates": diff_vars}})
        probe("divergence_attributed_to_" + (attributed or "nothing"))
        probe("divergence_on_" + ("tolerance_edge" if edge else "ordinary") + "_design")
    if any(rec["s1"]["store"] > 2 for rec in inter if case["clients"][rec["c"]]["kind"] == "sat"):
        probe("sat_encoding_found_non_empty_store")
    if any(rec["s1"]["rect_epsilon"][0] >= 0 and alone[rec["c"]][i]["s1"]["rect_epsilon"][0] < 0 for i, rec in enumerate(inter)):
        probe("load_after_epsilon_set_by_other_design")
    ncomp = sum(1 for c in compared if compared[c] >= 2)
    return {
        "violations": viol,
        "steps": len(inter),
        "faults_fired": fired,
        "faults_configured": configured,
        "probes": probes,
        "ops": ops_count,
        "signature": digest(sig),
        "nontrivial": ncomp >= 2,
        "digest": digest([hist, [(v["clause"], v["key"]) for v in viol]]),
        "history": hist if case.get("want_history") else None,
        "sample": {"run": case.get("run"), "clients": [c["kind"] for c in case["clients"]], "history": hist[:14]},
    }
