"""C10 - global floorplanning returns a feasible allocation and rigid hard modules.

System under simulation: tools.glbfloor.optimization.glbfloor(die, threshold, alpha,
max_iter=1..3): the library process and the `apm` solver process, talking through
GEKKO's temp directory.  Real: FRAME, GEKKO, the apm/IPOPT binary.  Under simulator
control: the process boundary (SimSolver), the scratch directory.

Faults at each solve of the refine/optimise loop: killed, error, truncated,
missing (results.json lost), enospc.  With a fault injected, raising is always
acceptable; returning at all with values that fail the oracle is the violation.
"""
import math
import os
import shutil
import sys
import tempfile

from sim.digest import digest, canon, excname
from sim.simsolver import SimSolver
from engines import designs, sem

STREAM = "c10"
RUN_TIMEOUT_S = 600.0
TIERS = {
    "quick": {"runs": 2400, "wall_s": 260, "batch": 800, "det_same": 6, "det_fresh": 1},
    "thorough": {"runs": 30000, "wall_s": 3000, "batch": 1000, "det_same": 16, "det_fresh": 2},
}
RULE = ("Each run is one glbfloor instance: a die <=12x12 lattice units with 0-2 blockages refined by "
        "split_refinable_regions(r, n<=12) or initial_grid, a netlist of 3-6 modules mixing soft, hard (1-3 rectangles), "
        "flippable and fixed modules with total area <=70% of the free area, threshold 0.6-0.99, alpha 0-1, max_iter 1-3; "
        "about 40% of the runs inject one fault (killed/error/truncated/missing/enospc) into one solve of the "
        "refine/optimise loop. Non-trivial: the call returned and the oracle was evaluated, or a fault fired; distinct = "
        "BLAKE2 of (instance digest, parameters, fault, outcome class).")
COMPONENTS = {
    "real": ["tools.glbfloor.optimization (glbfloor, optimize_allocation, extract_solution)", "frame.allocation, frame.die, "
             "frame.netlist", "gekko 1.0.7 model building and result loading", "apm/IPOPT solver binary (bit-repeatable black box)"],
    "stub": [],
    "simulator": ["SimSolver at the subprocess seam of gekko.gekko: runs the real solver, then alters what crosses the "
                  "process boundary per the fault plan", "harness-owned scratch directory for GEKKO's temp files"],
}
ASSUMPTIONS = [
    "instances on which the solver reports no solution end in an exception: they count as 'did not return' and are tallied",
    "capacity is checked at <= 1 + 1e-4 and centres at 1e-6 * size (IPOPT's tolerances are 1e-6 / 1e-8)",
    "fixed modules: rectangles bit-identical, their cells carry the module at ratio 1 (1e-6) and no other module above 1e-4",
    "hard modules: shapes exact, offsets from the centroid preserved up to one sign flip per axis (only when flip is set) "
    "within 1e-9 * size",
]


def gen_case(r, index, tier):
    W, H = r.randint(4, 12), r.randint(4, 12)
    # mostly designs with coordinates around 1; some in small or large units (the solver's tolerances are relative to its
    # own scaling, FRAME's bookkeeping must not care)
    die = designs.gen_die(r, family=r.choice(["dyadic", "decimal"]), scale_exp=r.weighted([(0, 7), (-2, 1), (-1, 1), (2, 1)]),
                          max_regions=2, allow_special=False)
    die["nx"], die["ny"] = max(die["nx"], 4), max(die["ny"], 4)
    die["nx"], die["ny"] = min(die["nx"], 12), min(die["ny"], 12)
    die["regions"] = [g for g in die["regions"] if g["box"][2] <= die["nx"] and g["box"][3] <= die["ny"]][:2]
    blocked = sum((b["box"][2] - b["box"][0]) * (b["box"][3] - b["box"][1]) for b in die["regions"])
    free = die["nx"] * die["ny"] - blocked
    if free < 0.5 * die["nx"] * die["ny"]:
        die["regions"] = []
        free = die["nx"] * die["ny"]
    nl = designs.gen_netlist(r, die, nmods=r.randint(3, 6), kinds=["soft", "soft", "soft", "hard", "fixed"],
                             allow_terminals=False, need_centers=True, connected=True, allow_regions=False)
    tot = 0
    for m in nl["modules"]:
        m.pop("aspect", None)
        if m["kind"] == "soft":
            m.pop("boxes", None)
            m["area"] = max(1, min(m["area"], free // (3 * len(nl["modules"]))))
            # keep the initial square of the module off the blockages, so that it touches some refinable cell
            for _try in range(8):
                cx, cy = m["center"]
                if not any(2 * g["box"][0] <= cx <= 2 * g["box"][2] and 2 * g["box"][1] <= cy <= 2 * g["box"][3] for g in die["regions"]):
                    break
                m["center"] = (r.randint(1, 2 * die["nx"] - 1), r.randint(1, 2 * die["ny"] - 1))
            tot += m["area"]
        else:
            m["boxes"] = m["boxes"][:3]
            tot += sum((b[2] - b[0]) * (b[3] - b[1]) for b in m["boxes"])
    # replicated block: another module is an instance of a movable hard block - same area, name derived from the block's
    # name by a suffix (M1 -> M10, M1_0, M1x ...), as generated instance names are
    hards = [m for m in nl["modules"] if m["kind"] == "hard"]
    if hards and len(nl["modules"]) >= 2 and r.chance(0.2):
        h = r.choice(hards)
        o = r.choice([m for m in nl["modules"] if m is not h])
        new = h["name"] + r.choice(["0", "1", "00", "_0", "_1", "_a", "x"])
        if all(m["name"] != new for m in nl["modules"]):
            old_name = o["name"]
            o["name"] = new
            for e in nl["nets"]:
                e["mods"] = [new if x == old_name else x for x in e["mods"]]
            if o["kind"] == "soft":
                o["area"] = max(1, sum((b[2] - b[0]) * (b[3] - b[1]) for b in h["boxes"]))
            elif o.get("boxes"):
                # an instance with rectangles gets the block's shape, at its own place, if it fits there
                dx, dy = o["boxes"][0][0] - h["boxes"][0][0], o["boxes"][0][1] - h["boxes"][0][1]
                cand = [(b[0] + dx, b[1] + dy, b[2] + dx, b[3] + dy) for b in h["boxes"]]
                others = [tuple(b) for m in nl["modules"] if m is not o and m["kind"] == "fixed" for b in m["boxes"]] + \
                    [tuple(g["box"]) for g in die["regions"]]
                if all(b[0] >= 0 and b[1] >= 0 and b[2] <= die["nx"] and b[3] <= die["ny"] for b in cand) and \
                        (o["kind"] != "fixed" or all(designs.overlap_area(b, t) == 0 for b in cand for t in others)):
                    o["boxes"] = cand
    refine = {"how": "split", "r": r.choice([1.5, 2, 3]), "n": r.randint(2, 12)} if (die["regions"] or r.chance(0.7)) else \
        {"how": "grid", "rows": r.randint(1, 4), "cols": r.randint(1, 4)}
    # overlap-heavy family: big soft modules piled on the same spot of a fine grid (whole cells start fully claimed by
    # several modules at once)
    if r.chance(0.15):
        softs = [m for m in nl["modules"] if m["kind"] == "soft"]
        for m in softs[:2]:
            m["area"] = max(2, free // 3)
            m["center"] = (die["nx"], die["ny"])
        refine = {"how": "split", "r": 2, "n": r.randint(8, 12)}
    faults = []
    flips = [m["name"] for m in nl["modules"] if m["kind"] == "hard" and m.get("flip") and len(m.get("boxes", [])) > 1]
    if flips and r.chance(0.5):
        faults.append({"solve": r.weighted([(1, 5), (2, 2)]), "kind": "mirror", "axis": r.choice(["x", "y"]), "modules": flips})
    elif r.chance(0.4):
        faults.append({"solve": r.weighted([(1, 5), (2, 3), (3, 1)]), "kind": r.choice(["killed", "error", "truncated", "missing", "enospc"]),
                       "byte": r.randint(1, 400)})
    return {"engine": "c10", "die": die, "net": nl, "refine": refine, "threshold": r.choice([0.6, 0.7, 0.8, 0.9, 0.95, 0.99, 1.0]),
            "alpha": r.weighted([(0.0, 1), (0.1, 3), (0.3, 3), (0.5, 3), (0.9, 2), (1.0, 1)]), "max_iter": r.randint(1, 3),
            "faults": faults, "area_total": tot,
            "free": free,
            "second": {"threshold": r.choice([0.7, 0.9, 0.95]), "alpha": r.choice([0.0, 0.5, 1.0]), "edit": r.chance(0.6)}
            if r.chance(0.3) else None}


def units(case):
    return len(case["net"]["modules"])


def restrict(case, keep):
    nl = case["net"]
    mods = [nl["modules"][i] for i in keep]
    names = {m["name"] for m in mods}
    nets = [dict(e, mods=[x for x in e["mods"] if x in names]) for e in nl["nets"]]
    nets = [e for e in nets if len(e["mods"]) >= 2]
    return dict(case, net=dict(nl, modules=mods, nets=nets))


def simplify(case):
    if case["max_iter"] > 1:
        yield dict(case, max_iter=case["max_iter"] - 1)
    nl = case["net"]
    for j in range(len(nl["nets"])):
        yield dict(case, net=dict(nl, nets=nl["nets"][:j] + nl["nets"][j + 1:]))
    d = case["die"]
    for j in range(len(d["regions"])):
        yield dict(case, die=dict(d, regions=d["regions"][:j] + d["regions"][j + 1:]))


_m = {}


def setup():
    import gekko  # noqa
    import tools.glbfloor.optimization as OPT
    import frame.die.die as D
    import frame.netlist.netlist as N
    _m.update(OPT=OPT, D=D, N=N, GK=sys.modules["gekko.gekko"])


def _norm(nl):
    mods = []
    for m in nl["modules"]:
        m = dict(m)
        if "boxes" in m:
            m["boxes"] = [tuple(b) for b in m["boxes"]]
        if "center" in m:
            m["center"] = tuple(m["center"])
        mods.append(m)
    return dict(nl, modules=mods)


def _snap(net):
    snap = {}
    for m in net.modules:
        ar = sum(r.area for r in m.rectangles) or 1.0
        cx = sum(r.center.x * r.area for r in m.rectangles) / ar if m.rectangles else None
        cy = sum(r.center.y * r.area for r in m.rectangles) / ar if m.rectangles else None
        snap[m.name] = {"kind": sem.module_kind(m), "flip": m.flip, "rects": [sem.rect_spec(r) for r in m.rectangles],
                        "offsets": [(r.center.x - cx, r.center.y - cy, r.shape.w, r.shape.h) for r in m.rectangles] if m.rectangles else []}
    return snap


def _judge(ret, snap, W, H, size, key, viol):
    """The oracle of C10 on one returned (die, allocation).  Returns the list of cells."""
    rdie, alloc = ret

    def v(clause, detail):
        viol.append({"property": "C10", "clause": clause, "key": dict(key), "detail": detail})

    cells = [(a.rect.center.x - a.rect.shape.w / 2, a.rect.center.y - a.rect.shape.h / 2,
              a.rect.center.x + a.rect.shape.w / 2, a.rect.center.y + a.rect.shape.h / 2, a) for a in alloc.allocations]
    tol = 1e-9 * size
    for c in cells:
        if c[0] < -tol or c[1] < -tol or c[2] > W + tol or c[3] > H + tol:
            v("cell of the returned allocation lies outside the die", {"cell": c[:4], "die": [W, H]})
            break
    bad = False
    for i in range(len(cells)):
        for j in range(i + 1, len(cells)):
            ow = min(cells[i][2], cells[j][2]) - max(cells[i][0], cells[j][0])
            oh = min(cells[i][3], cells[j][3]) - max(cells[i][1], cells[j][1])
            if ow > tol and oh > tol:
                v("cells of the returned allocation overlap", {"a": cells[i][:4], "b": cells[j][:4]})
                bad = True
                break
        if bad:
            break
    for c in cells:
        a = c[4]
        if any((not math.isfinite(x)) or x < -1e-6 or x > 1 + 1e-6 for x in a.alloc.values()):
            v("occupancy ratio outside [0, 1]", {"cell": c[:4], "alloc": a.alloc})
            break
        if sum(a.alloc.values()) > 1 + 1e-4:
            v("cell occupied beyond 100%", {"cell": c[:4], "alloc": a.alloc, "total": sum(a.alloc.values())})
            break
    for m in rdie.netlist.modules:
        s = snap[m.name]
        if m.center is None or not (math.isfinite(m.center.x) and math.isfinite(m.center.y)) or \
                m.center.x < -1e-6 * size or m.center.x > W + 1e-6 * size or m.center.y < -1e-6 * size or m.center.y > H + 1e-6 * size:
            v("module centre outside the die", {"module": m.name, "centre": None if m.center is None else [m.center.x, m.center.y]})
            break
        now = [sem.rect_spec(r) for r in m.rectangles]
        if s["kind"] == "fixed":
            if canon(now) != canon(s["rects"]):
                v("fixed module's rectangles changed", {"module": m.name, "before": s["rects"], "after": now})
                break
            for rc in now:
                box = (rc[0] - rc[2] / 2, rc[1] - rc[3] / 2, rc[0] + rc[2] / 2, rc[1] + rc[3] / 2)
                own = [c for c in cells if all(abs(c[k] - box[k]) <= tol for k in range(4))]
                if len(own) != 1:
                    v("fixed module does not own exactly its cells", {"module": m.name, "rect": rc, "cells": len(own)})
                    break
                al = own[0][4].alloc
                if abs(al.get(m.name, 0.0) - 1.0) > 1e-6 or any(x > 1e-4 for k_, x in al.items() if k_ != m.name):
                    v("fixed module does not fully own its cell", {"module": m.name, "alloc": al})
                    break
        elif s["kind"] == "hard":
            if len(now) != len(s["rects"]):
                v("hard module reshaped", {"module": m.name})
                break
            ar = sum(r[2] * r[3] for r in now)
            cx = sum(r[0] * r[2] * r[3] for r in now) / ar
            cy = sum(r[1] * r[2] * r[3] for r in now) / ar
            offs = [(r[0] - cx, r[1] - cy, r[2], r[3]) for r in now]
            ok = False
            for sx in ((1, -1) if s["flip"] else (1,)):
                for sy in ((1, -1) if s["flip"] else (1,)):
                    if all(abs(o[0] - sx * b[0]) <= 1e-9 * size and abs(o[1] - sy * b[1]) <= 1e-9 * size and o[2] == b[2] and o[3] == b[3]
                           for o, b in zip(offs, s["offsets"])):
                        ok = True
            if not ok:
                v("movable hard module reshaped (not a translation or permitted mirror)",
                  {"module": m.name, "flip": s["flip"], "before": s["offsets"], "after": offs})
                break
    return cells


def run_case(case):
    OPT, D, N, GK = _m["OPT"], _m["D"], _m["N"], _m["GK"]
    viol, hist, probes, fired, configured = [], [], {}, {}, {}
    scratch = tempfile.mkdtemp(prefix="frame-verif-", dir=os.environ.get("VERIF_SCRATCH") or ("/dev/shm" if os.path.isdir("/dev/shm") else None))
    tempfile.tempdir = scratch
    solver = SimSolver(case.get("faults"))
    GK.subprocess = solver
    for f in case.get("faults", []):
        configured[f["kind"]] = configured.get(f["kind"], 0) + 1
    outcome = "?"
    ret = None
    try:
        die_d = dict(case["die"], regions=[dict(g, box=tuple(g["box"])) for g in case["die"]["regions"]])
        try:
            net = N.Netlist(designs.netlist_tree(_norm(case["net"]), die_d))
            die = D.Die(designs.die_tree(die_d), net)
            rf = case["refine"]
            if rf["how"] == "split":
                die.split_refinable_regions(rf["r"], rf["n"])
            elif not (die.fixed_regions or die.blockages or die.specialized_regions) and rf["rows"] + rf["cols"] > 1:
                die.initial_grid(rf["rows"], rf["cols"])
        except (AssertionError, IndexError) as e:
            hist.append({"out": "skipped(instance rejected: %s)" % str(e)[:60]})
            return _result(case, viol, hist, probes, fired, configured, False, "rejected", solver)
        W, H = die.width, die.height
        size = max(W, H)
        snap = _snap(net)
        try:
            ret = OPT.glbfloor(die, case["threshold"], case["alpha"], max_iter=case["max_iter"], verbose=False, plotting_options=None)
            outcome = "returned"
        except BaseException as e:  # noqa - whatever glbfloor raises means "did not return"
            if isinstance(e, (KeyboardInterrupt, SystemExit)):
                raise
            outcome = "raised " + excname(e)
            hist.append({"out": outcome, "exc": repr(e)[:120]})
        for f in solver.fired:
            fired[f["kind"]] = fired.get(f["kind"], 0) + 1
        faulted = any(f["kind"] != "mirror" for f in solver.fired)
        if any(f["kind"] == "mirror" for f in solver.fired):
            probes["solver_answer_mirrored"] = 1
        if ret is not None:
            real_faults = [f["kind"] for f in solver.fired if f["kind"] != "mirror"]
            key = {"after_fault": real_faults[0] if real_faults else "none"}
            names = {m.name for m in net.modules}
            if any(("%s_%d" % (m.name, k_)) in names for m in net.modules if m.is_hard and not m.is_fixed
                   for k_ in range(max(1, m.num_rectangles))):
                key["aux_name_collision"] = True   # a module is called like the auxiliary module of a hard module's rectangle
                probes["module_named_like_an_auxiliary_module"] = 1
            cells = _judge(ret, snap, W, H, size, key, viol)
            rdie = ret[0]
            hist.append({"out": "returned", "cells": len(cells), "solves": solver.nsolve, "faults": [f["kind"] for f in solver.fired]})
            sec = case.get("second")
            if sec and not faulted and not viol:
                # the stage is run again on the SAME objects (other parameters); before that the user may have slid a
                # branch of a hard module along its trunk - the second answer must be judged on what was handed in then
                edited = False
                if sec.get("edit"):
                    for m in rdie.netlist.modules:
                        if m.is_hard and not m.is_fixed and m.num_rectangles >= 2:
                            t, b = m.rectangles[0], m.rectangles[1]
                            d = min(t.shape.w, t.shape.h) / 8.0
                            if abs(b.center.x - t.center.x) > abs(b.center.y - t.center.y):
                                b.center.y += d      # east/west branch: slide vertically
                            else:
                                b.center.x += d      # north/south branch: slide horizontally
                            edited = True
                            break
                snap2 = _snap(rdie.netlist)
                try:
                    ret2 = OPT.glbfloor(rdie, sec["threshold"], sec["alpha"], max_iter=1, verbose=False, plotting_options=None)
                except BaseException as e:  # noqa
                    if isinstance(e, (KeyboardInterrupt, SystemExit)):
                        raise
                    ret2 = None
                    hist.append({"out": "second call raised " + excname(e)})
                for f in solver.fired:
                    fired[f["kind"]] = fired.get(f["kind"], 0) + 1
                if ret2 is not None:
                    rf2 = [f["kind"] for f in solver.fired if f["kind"] != "mirror"]
                    k2 = {"after_fault": rf2[0] if rf2 else "none", "call": "second"}
                    _judge(ret2, snap2, W, H, size, k2, viol)
                    hist.append({"out": "second call returned", "edited": edited})
                    probes["second_call_on_same_objects" + ("_after_edit" if edited else "")] = 1
            if faulted:
                probes["returned_despite_fault_" + real_faults[0]] = 1
            if any(s["kind"] == "hard" and len(s["rects"]) > 1 for s in snap.values()):
                probes["hard_module_with_several_rectangles"] = 1
            if any(s["kind"] == "fixed" for s in snap.values()):
                probes["instance_with_fixed_module"] = 1
            if solver.nsolve >= 2:
                probes["refine_optimise_loop_iterated"] = 1
        elif faulted:
            probes["raised_after_fault_" + [f["kind"] for f in solver.fired if f["kind"] != "mirror"][0]] = 1
        else:
            probes["did_not_return_" + outcome.split(" ")[-1]] = 1
        return _result(case, viol, hist, probes, fired, configured, ret is not None or faulted, outcome, solver)
    finally:
        shutil.rmtree(scratch, ignore_errors=True)


def _result(case, viol, hist, probes, fired, configured, nontrivial, outcome, solver):
    sig = digest([case["die"], case["net"], case["refine"], case["threshold"], case["alpha"], case["max_iter"], case["faults"],
                  outcome.split(" ")[0]])
    return {"violations": viol, "steps": solver.nsolve, "faults_fired": fired, "faults_configured": configured, "probes": probes,
            "ops": {"glbfloor": 1, "solves": solver.nsolve}, "signature": sig, "nontrivial": nontrivial,
            "digest": digest([hist, [(v["clause"], v["key"]) for v in viol],
                              [(x["solve"], x["rc"], x["had_results"], x.get("fault")) for x in solver.log]]),
            "history": hist if case.get("want_history") else None,
            "sample": {"run": case.get("run"), "modules": len(case["net"]["modules"]), "refine": case["refine"],
                       "threshold": case["threshold"], "alpha": case["alpha"], "max_iter": case["max_iter"],
                       "faults": case["faults"], "history": hist[:3], "solver_log": solver.log[:3]}}
