"""C19 - every document FRAME produces is accepted back and says the same thing.

System under simulation: the producer/consumer pipeline of `frame all` re-created
in one process over SimFS: producer stages write documents, consumer stages read
them, the file system is the transport.  Faults: ENOSPC/EIO at byte k of the
producer's write, error at close, ENOENT, crash mid-write with the consumer
restarted from what is on the simulated disk, ENOENT/EIO on the consumer's read.
"""
import os
import shutil
import tempfile

from sim.digest import digest, canon, excname
from sim.rng import Rng
from sim.simfs import SimFS, SimCrash
from sim.simrandom import SimRandom
from engines import designs, sem

STREAM = "c19"
RUN_TIMEOUT_S = 240.0
TIERS = {
    "quick": {"runs": 2500, "wall_s": 240, "batch": 500, "det_same": 24, "det_fresh": 3},
    "thorough": {"runs": 50000, "wall_s": 2400, "batch": 2000, "det_same": 64, "det_fresh": 6},
}
RULE = ("Each run is a seeded producer/consumer history over the simulated file system: load a die/netlist/allocation "
        "(tree, text, file or WxH channel), mutate it with library stages (split_refinable_regions, initial_grid, "
        "create_initial_allocation, refine, uniform, griddify), write it 1-4 times to a file or a string with optional "
        "write faults, read it back, crash-and-restart from the files; netgen for every topology from its smallest "
        "meaningful size, with centres/noise/seed through the simulator's randomness; synthetic FloorSet instances with "
        "polygonal blocks and terminal pins through the converter; rect_io get_alloc/get_netlist/select_box/"
        "solution_to_netlist on synthesised k-box solutions; the legaliser's Model.get_netlist on the built model. "
        "Non-trivial: >=2 documents produced and read back; distinct = BLAKE2 signature of (op kind, channel, outcome, fault).")
COMPONENTS = {
    "real": ["Die/Allocation/Netlist.write_yaml and the three readers", "frame.utils.utils.read_yaml/write_yaml (ruamel)",
             "tools.netgen.netgen.main and gen_*", "FloorSetInstance (+ strop_decomposition, Strop)",
             "tools.rect.rect_io get_alloc/get_netlist/select_box/solution_to_netlist",
             "tools.legalfloor.legalfloor netlist_to_utils + Model construction + Model.get_netlist (model built, not solved)"],
    "stub": ["file system (SimFS)", "random module of netgen (SimRandom)",
             "rect solutions: synthesised k-box orthogons on the allocation's bounding box (the greedy helper is a "
             "Windows-only DLL and cannot load here)",
             "FloorSet dataset: synthesised numpy records (the dataset cannot be downloaded)"],
    "simulator": ["seeded pipeline scheduler", "write/read fault plan", "crash + restart from durable files"],
}
ASSUMPTIONS = [
    "numbers must round-trip exactly (ruamel and str(float) both emit round-trippable reprs)",
    "what a reader does with a torn file after a crash is recorded, not judged (C19 promises no atomic writes)",
    "for the string-built emitters (rect, legalfloor) 'kind' means soft/hard/fixed/terminal and area means total area; "
    "aspect-ratio bounds and the flip flag are outside C19's list",
    "legaliser inputs have rectangles for every module and no terminals (the stage's domain)",
]


# ===================================================================================== generator
def _gen_fault(r, kinds=("enospc", "eio_write", "close_err", "enoent", "crash")):
    k = r.choice(list(kinds))
    f = {"kind": k}
    if k in ("enospc", "eio_write", "crash"):
        f["byte"] = r.randint(0, 400)
    if k == "crash":
        f["cut"] = r.randint(0, 400)
    return f


def _gen_write(r, obj, fault_p=0.2):
    o = {"op": "write", "obj": obj, "to": r.weighted([("file", 3), ("string", 2)]), "times": r.weighted([(1, 3), (2, 3), (3, 1), (4, 1)])}
    if o["to"] == "file" and r.chance(fault_p):
        o["fault"] = _gen_fault(r)
    return o


def _gen_die_ops(r, with_net):
    die = designs.gen_die(r)
    ops = []
    if with_net:
        nl = designs.gen_netlist(r, die, allow_terminals=True)
        ops.append({"op": "load_net", "net": nl, "die": die, "via": r.choice(["tree", "text", "file"]), "ints": r.chance(0.2)})
    ops.append({"op": "load_die", "die": die, "via": r.choice(["tree", "text", "file"] + (["wxh"] if not die["regions"] else [])),
                "with_net": with_net})
    return die, ops


def gen_case(r, index, tier):
    scen = r.weighted([("die", 3), ("alloc", 3), ("netgen", 3), ("floorset", 2), ("rect", 3), ("legal", 1), ("pipeline", 3)])
    ops = []
    if scen == "die":
        die, ops = _gen_die_ops(r, r.chance(0.5))
        for _ in range(r.randint(1, 4)):
            k = r.below(10)
            if k < 5:
                ops.append(_gen_write(r, "die"))
            elif k < 8:
                ops.append({"op": "split", "r": r.choice([1.42, 1.5, 2, 3]), "n": r.randint(1, 12)})
            elif k < 9:
                ops.append({"op": "grid", "rows": r.randint(1, 4), "cols": r.randint(1, 4)})
            else:
                ops.append({"op": "restart"})
        ops.append(_gen_write(r, "die"))
    elif scen == "alloc":
        desc = designs.gen_allocation(r, allow_fixed=False)
        ops.append({"op": "load_alloc", "alloc": desc, "via": r.choice(["tree", "text", "file"])})
        for _ in range(r.randint(1, 5)):
            k = r.below(10)
            if k < 5:
                ops.append(_gen_write(r, "alloc"))
            elif k < 7:
                ops.append({"op": "refine", "t": r.choice([0.5, 0.7, 0.9, 0.95, 1.0]), "levels": r.randint(1, 2)})
            elif k < 8:
                ops.append({"op": "uniform"})
            elif k < 9:
                ops.append({"op": "griddify"})
            else:
                ops.append({"op": "restart"})
        ops.append(_gen_write(r, "alloc"))
    elif scen == "netgen":
        for _ in range(r.randint(1, 3)):
            t = r.choice(["grid", "chain", "ring", "star", "ring-star", "one-net", "htree"])
            lo = {"chain": 2, "ring": 3, "star": 2, "ring-star": 4, "one-net": 2, "htree": 1}.get(t, 1)
            if t == "grid":
                rows, cols = r.randint(1, 5), r.randint(1, 5)
                if rows * cols < 2:
                    cols = 2
                size = [rows, cols]
            elif t == "htree":
                size = [r.weighted([(1, 2), (2, 3), (3, 1)])]
            else:
                size = [r.weighted([(lo, 3), (lo + 1, 2), (r.randint(lo, 12), 4)])]
            o = {"op": "netgen", "type": t, "size": size}
            if t == "grid" and r.chance(0.6):
                o["centers"] = True
                o["die"] = r.choice(["8x6", "10x10", "2.5x7", "0.3x0.2", "1000x400"])
                o["die_file"] = r.chance(0.4)
                if r.chance(0.6):
                    o["noise"] = r.choice([None, 0.1, 0.0, 0.5])   # None = flag without value (const 0.1)
                    if r.chance(0.6):
                        o["nseed"] = r.randint(0, 1000)
            if r.chance(0.15):
                o["fault"] = _gen_fault(r, ("enospc", "eio_write", "close_err", "enoent"))
            ops.append(o)
    elif scen == "floorset":
        ops.append({"op": "floorset", "inst": _gen_floorset(r), "tam": False, "density": r.choice([None, None, 0.5, 0.9]),
                    "times": r.randint(1, 3), "to": r.choice(["file", "string"]), "die_first": r.chance(0.4)})
    elif scen == "rect":
        desc = designs.gen_allocation(r, allow_fixed=False, allow_empty=True, drop_cells=False, slivers=False, nmods=r.randint(1, 4))
        ops.append({"op": "load_alloc", "alloc": desc, "via": "tree"})
        ops.append({"op": "write", "obj": "alloc", "to": "file", "times": 1})
        ops.append({"op": "rect_alloc"})
        ops.append({"op": "rect_solution", "seed": r.below(1 << 30), "extra": r.randint(0, 3), "nnets": r.randint(0, 4),
                    "times": r.randint(1, 2)})
        # an iterative flow: the allocation is refined (or replaced) and handed to the stage again under the same file name
        for _ in range(r.weighted([(0, 5), (1, 4), (2, 1)])):
            if r.chance(0.6):
                ops.append({"op": "refine", "t": r.choice([0.7, 0.9, 0.95, 1.0]), "levels": 1})
            else:
                ops.append({"op": "load_alloc", "alloc": designs.gen_allocation(r, allow_fixed=False, allow_empty=True, drop_cells=False,
                                                                                 slivers=False, nmods=r.randint(1, 4)), "via": "tree"})
            ops.append({"op": "write", "obj": "alloc", "to": "file", "times": 1})
            ops.append({"op": "rect_alloc"})
    elif scen == "legal":
        die = designs.gen_die(r, max_regions=0, scale_exp=r.weighted([(0, 4), (-1, 2), (1, 2), (2, 1), (-3, 1), (-4, 1)]))
        nl = designs.gen_netlist(r, die, nmods=r.randint(1, 4), kinds=["soft", "soft", "hard", "fixed"], allow_terminals=False,
                                 allow_regions=False)
        for m in nl["modules"]:
            if m["kind"] == "soft" and not m.get("boxes"):
                bs = designs.free_boxes(die, r, 1)
                m["boxes"] = designs.stog_boxes(r, bs[0]) if bs and r.chance(0.5) else (bs or [(0, 0, 1, 1)])
                m["boxes"] = [b for b in m["boxes"] if b[0] >= 0 and b[1] >= 0]
            m.pop("area_regions", None)
        for e in nl["nets"]:
            if r.chance(0.2):
                e["w"] = r.choice([1e-05, 2e-07, 3000000.0, 0.000125])   # very weak / very strong nets
        ops.append({"op": "load_net", "net": nl, "die": die, "via": "tree", "ints": r.chance(0.3)})
        ops.append({"op": "load_die", "die": die, "via": "tree", "with_net": False})
        ops.append({"op": "legal", "ratio": r.choice([2.0, 3.0]),
                    "solve": r.randint(1, 2) if r.chance(0.6 if tier == "thorough" else 0.25) else 0})
    else:  # pipeline: die + netlist -> initial allocation -> refine -> documents handed on through files
        die, ops = _gen_die_ops(r, True)
        ops.append({"op": "split", "r": r.choice([1.5, 2, 3]), "n": r.randint(1, 10)})
        ops.append(_gen_write(r, "die"))
        ops.append(_gen_write(r, "net", fault_p=0.1))
        ops.append({"op": "init_alloc", "zero": r.chance(0.2)})
        ops.append(_gen_write(r, "alloc"))
        if r.chance(0.5):
            ops.append({"op": "refine", "t": r.choice([0.7, 0.9, 0.95]), "levels": 1})
            ops.append(_gen_write(r, "alloc"))
        if r.chance(0.4):
            ops.append({"op": "restart"})
            ops.append(_gen_write(r, "alloc"))
        if r.chance(0.5):
            ops.append({"op": "rect_alloc"})
    if r.chance(0.1):
        ops.append({"op": "read_fault", "kind": r.choice(["enoent", "eio_read"])})
    return {"engine": "c19", "scenario": scen, "ops": ops, "fixed_names": r.chance(0.5)}


def _gen_floorset(r):
    """Synthetic FloorSet-Prime record on an integer lattice."""
    W, H = r.randint(8, 20), r.randint(8, 20)
    die = {"family": "dyadic", "scale_exp": 0, "nx": W, "ny": H, "regions": []}
    nblocks = r.randint(1, 5)
    blocks = []
    taken = []
    for i in range(nblocks):
        bs = designs.free_boxes(die, r, 1, max_w=4, max_h=4, avoid=taken)
        if not bs:
            continue
        boxes = bs
        if r.chance(0.6):
            cand = designs.stog_boxes(r, bs[0])
            if all(b[0] >= 0 and b[1] >= 0 and b[2] <= W and b[3] <= H for b in cand) and \
                    all(designs.overlap_area(b, t) == 0 for b in cand for t in taken):
                boxes = cand
        taken += boxes
        blocks.append({"boxes": boxes, "kind": r.weighted([("soft", 5), ("hard", 2), ("fixed", 2)]),
                       "cw": r.chance(0.5), "closed": r.chance(0.7), "start": r.below(8)})
    npins = r.randint(1, 4)
    pins = []
    for _ in range(npins):
        side = r.below(4)
        if side == 0:
            pins.append((0, r.randint(0, H)))
        elif side == 1:
            pins.append((W, r.randint(0, H)))
        elif side == 2:
            pins.append((r.randint(0, W), 0))
        else:
            pins.append((r.randint(0, W), H))
    pins.append((W, H))  # the converter takes the die size from the largest pin coordinates
    nb = len(blocks)
    b2b = []
    for _ in range(r.randint(0, nb + 1)):
        if nb >= 2:
            i, j = r.sample(range(nb), 2)
            b2b.append((i, j, r.choice([1, 1, 2, 3, 0, 7])))
    p2b = [(r.below(len(pins)), r.below(nb), r.choice([1, 1, 2, 5, 0])) for _ in range(r.randint(0, 4))] if nb else []
    return {"W": W, "H": H, "blocks": blocks, "pins": pins, "b2b": b2b, "p2b": p2b, "unit": r.choice([1.0, 0.5, 2.5])}


def units(case):
    return len(case["ops"])


def restrict(case, keep):
    return dict(case, ops=[case["ops"][i] for i in keep])


def simplify(case):
    ops = case["ops"]
    for i, o in enumerate(ops):
        if "fault" in o:
            yield dict(case, ops=ops[:i] + [{k: v for k, v in o.items() if k != "fault"}] + ops[i + 1:])
        if o.get("times", 1) > 1:
            yield dict(case, ops=ops[:i] + [dict(o, times=o["times"] - 1)] + ops[i + 1:])
        if o.get("via") in ("text", "file"):
            yield dict(case, ops=ops[:i] + [dict(o, via="tree")] + ops[i + 1:])
        if o.get("ints"):
            yield dict(case, ops=ops[:i] + [dict(o, ints=False)] + ops[i + 1:])
        if o["op"] == "load_net":
            nl = o["net"]
            for j in range(len(nl["nets"])):
                nn = dict(nl, nets=nl["nets"][:j] + nl["nets"][j + 1:])
                yield dict(case, ops=ops[:i] + [dict(o, net=nn)] + ops[i + 1:])
            for j in range(len(nl["modules"])):
                name = nl["modules"][j]["name"]
                nets = [dict(e, mods=[x for x in e["mods"] if x != name]) for e in nl["nets"]]
                nets = [e for e in nets if len(e["mods"]) >= 2]
                nn = dict(nl, modules=nl["modules"][:j] + nl["modules"][j + 1:], nets=nets)
                if nn["modules"]:
                    yield dict(case, ops=ops[:i] + [dict(o, net=nn)] + ops[i + 1:])
        if o["op"] == "load_die" and o["die"]["regions"]:
            d = o["die"]
            for j in range(len(d["regions"])):
                yield dict(case, ops=ops[:i] + [dict(o, die=dict(d, regions=d["regions"][:j] + d["regions"][j + 1:]))] + ops[i + 1:])
        if o["op"] == "load_alloc":
            a = o["alloc"]
            for j in range(len(a["cells"])):
                if len(a["cells"]) > 1:
                    yield dict(case, ops=ops[:i] + [dict(o, alloc=dict(a, cells=a["cells"][:j] + a["cells"][j + 1:]))] + ops[i + 1:])
        if o["op"] == "floorset":
            inst = o["inst"]
            for key in ("b2b", "p2b"):
                for j in range(len(inst[key])):
                    yield dict(case, ops=ops[:i] + [dict(o, inst=dict(inst, **{key: inst[key][:j] + inst[key][j + 1:]}))] + ops[i + 1:])
        if o["op"] == "rect_solution":
            if o.get("extra", 0) > 0:
                yield dict(case, ops=ops[:i] + [dict(o, extra=o["extra"] - 1)] + ops[i + 1:])
            if o.get("nnets", 0) > 0:
                yield dict(case, ops=ops[:i] + [dict(o, nnets=o["nnets"] - 1)] + ops[i + 1:])


# ===================================================================================== system side
_m = {}


def setup():
    import frame.utils.utils as U
    import frame.die.die as D
    import frame.netlist.netlist as N
    import frame.allocation.allocation as A
    import frame.geometry.geometry as G
    import tools.netgen.netgen as NG
    import tools.rect.rect_io as RIO
    import numpy as np
    import tools.floorset_parser.floor_set_manager.manager as FM
    import tools.legalfloor.legalfloor as LF
    _m.update(U=U, D=D, N=N, A=A, G=G, NG=NG, RIO=RIO, np=np, FM=FM, LF=LF)


def _numnorm(x):
    """ints and floats that denote the same number compare equal in a document's meaning"""
    if isinstance(x, bool):
        return x
    if isinstance(x, int):
        return float(x)
    if isinstance(x, dict):
        return {k: _numnorm(v) for k, v in x.items()}
    if isinstance(x, (list, tuple)):
        return [_numnorm(v) for v in x]
    return x


def _tupleise(x):
    if isinstance(x, list):
        return tuple(_tupleise(v) for v in x)
    return x


def _norm_desc(d):
    """Replay files carry JSON (lists instead of tuples, Fractions as strings)."""
    from fractions import Fraction
    if isinstance(d, dict):
        out = {}
        for k, v in d.items():
            if k in ("box",):
                out[k] = tuple(Fraction(x) if isinstance(x, str) else x for x in v)
            elif k in ("boxes",):
                out[k] = [tuple(b) for b in v]
            elif k in ("center",) and isinstance(v, list):
                out[k] = tuple(v)
            else:
                out[k] = _norm_desc(v)
        return out
    if isinstance(d, list):
        return [_norm_desc(v) for v in d]
    return d


def _intify(tree):
    """Turns integral floats into ints, as a hand-written YAML document would have them."""
    if isinstance(tree, dict):
        return {k: _intify(v) for k, v in tree.items()}
    if isinstance(tree, list):
        return [_intify(v) for v in tree]
    if isinstance(tree, float) and tree == int(tree) and abs(tree) < 1e9:
        return int(tree)
    return tree


class Ctx:
    def __init__(self, case):
        # documents live in a real scratch directory (the process's working directory), every open() of the code under
        # test goes through SimFS, which injects the faults
        self.scratch = tempfile.mkdtemp(prefix="frame-verif-", dir=os.environ.get("VERIF_SCRATCH") or ("/dev/shm" if os.path.isdir("/dev/shm") else None))
        os.makedirs(os.path.join(self.scratch, "fs"))
        os.makedirs(os.path.join(self.scratch, "tmp"))
        tempfile.tempdir = os.path.join(self.scratch, "tmp")
        self.fs = SimFS(mirror=os.path.join(self.scratch, "fs"))
        os.chdir(self.fs.mirror)
        self.viol = []
        self.hist = []
        self.probes = {}
        self.ops = {}
        self.fired = {}
        self.configured = {}
        self.sig = []
        self.objs = {}
        self.files = {}       # slot -> (path, sem at write time)
        self.files_raw = {}   # slot -> un-canonicalised sem at write time
        self.trees = {}       # slot -> tree it was loaded from (for fresh reloads)
        self.nfile = 0
        self.fixed_names = bool(case.get("fixed_names"))
        self.docs = 0
        self.rnd = SimRandom(1234)

    def probe(self, name, n=1):
        self.probes[name] = self.probes.get(name, 0) + n

    def v(self, clause, key, detail):
        self.viol.append({"property": "C19", "clause": clause, "key": key, "detail": detail})

    def path(self, stem):
        # stages of the real flow use fixed file names, so a later run of a stage overwrites the earlier document:
        # every third request gets a fresh name, the others reuse one of two names per stem
        self.nfile += 1
        if self.fixed_names:
            return "%s.yaml" % stem      # one name per kind of document, overwritten by every later run of the stage
        if self.nfile % 3 == 0:
            return "%s_%d.yaml" % (stem, self.nfile)
        return "%s_slot%d.yaml" % (stem, self.nfile % 2)


def _yaml_text(tree):
    return _m["U"].write_yaml(tree)


def _load(ctx, kind, tree, via, extra=None):
    """Loads an object through one of the reader's channels."""
    if via == "wxh":
        src = "%sx%s" % (repr(tree["width"]), repr(tree["height"]))
    elif via == "tree":
        src = tree
    elif via == "text":
        src = _yaml_text(tree)
        if ": " not in src and "\n" not in src:
            src = tree
    else:
        p = ctx.path("in_" + kind)
        ctx.fs.put(p, _yaml_text(tree))
        src = p
    if kind == "die":
        return _m["D"].Die(src, extra)
    if kind == "net":
        return _m["N"].Netlist(src)
    return _m["A"].Allocation(src)


def _full_sem(kind, obj):
    if kind == "die":
        return sem.die_sem(obj, full=True)
    if kind == "alloc":
        return sem.alloc_sem(obj)
    return sem.netlist_sem(obj, roles=True, order_rects=True)


def _unordered_net(ns):
    """C19 speaks of the same modules, kinds, shapes, nets and weights - not of their order in the document."""
    return {"modules": sorted(ns["modules"], key=lambda m: m["name"]),
            "nets": sorted(([sorted(e[0]), e[1]] for e in ns["nets"]), key=repr)}


def _doc_sem(kind, obj):
    if kind == "die":
        return sem.die_sem(obj)
    if kind == "alloc":
        return sorted(sem.alloc_sem(obj), key=repr)   # same cells, ratios and depths; their order is not prescribed
    # the plain netlist writer is C04's subject; as a transport in this pipeline it is judged on what C19 lists:
    # modules, kinds, shapes, nets and weights (plus centres and aspect ratios); flip flag and per-region areas are not
    return _unordered_net(sem.netlist_sem(obj, flip=False, per_region=False))


def _reread(ctx, kind, src):
    if kind == "die":
        net = None
        if "net" in ctx.trees:
            net = _m["N"].Netlist(ctx.trees["net"])
        return _m["D"].Die(src, net)
    if kind == "alloc":
        return _m["A"].Allocation(src)
    return _m["N"].Netlist(src)


def _arm_fault(ctx, fault):
    fs = ctx.fs
    k = fault["kind"]
    ctx.configured[k] = ctx.configured.get(k, 0) + 1
    nth = fs.counts["open_w"] + 1
    if k == "enoent":
        fs.plan.append({"kind": "enoent", "op": "open_w", "nth": nth})
    elif k == "close_err":
        fs.plan.append({"kind": "close_err", "nth": nth})
    elif k == "crash":
        fs.plan.append({"kind": "crash", "nth": nth, "byte": fault.get("byte", 0), "cut": fault.get("cut", 0)})
    else:
        fs.plan.append({"kind": k, "nth": nth, "byte": fault.get("byte", 0)})


def _op_write(ctx, o):
    kind = o["obj"]
    obj = ctx.objs.get(kind)
    if obj is None:
        return "skipped(no object)"
    key = {"producer": kind + ".write_yaml", "to": o["to"]}
    before = canon(_full_sem(kind, obj))
    docs = []
    outcome = "ok"
    fault = o.get("fault") if o["to"] == "file" else None
    path = None
    for i in range(o.get("times", 1)):
        if o["to"] == "string":
            try:
                docs.append(obj.write_yaml())
            except Exception as e:
                ctx.v("producer raised", dict(key, exc=excname(e)), {"exc": repr(e)[:300]})
                return "producer raised"
        else:
            path = ctx.path("out_" + kind)
            nfired = len(ctx.fs.fired)
            armed = fault is not None and i == 0
            if armed:
                _arm_fault(ctx, fault)
            raised = None
            try:
                obj.write_yaml(path)
            except OSError as e:
                raised = e
            except SimCrash:
                # the writing process died: only SimFS survives (and an earlier document of the same name is gone:
                # writes are not atomic, which C19 does not promise)
                for k_ in [k_ for k_, v_ in ctx.files.items() if v_[0] == path]:
                    del ctx.files[k_]
                fk = ctx.fs.fired[-1]["kind"]
                ctx.fired[fk] = ctx.fired.get(fk, 0) + 1
                ctx.fs.plan = []
                ctx.objs = {}
                torn = ctx.fs.text(path)
                try:
                    _reread(ctx, kind, path)
                    ctx.probe("torn_document_accepted_by_reader")
                except BaseException:  # noqa
                    ctx.probe("torn_document_rejected_by_reader")
                _do_restart(ctx)
                return "crashed(len=%d)" % len(torn or "")
            except Exception as e:
                ctx.v("producer raised", dict(key, exc=excname(e)), {"exc": repr(e)[:300]})
                return "producer raised"
            fired_now = len(ctx.fs.fired) > nfired
            ctx.fs.plan = []
            if fired_now:
                for k_ in [k_ for k_, v_ in ctx.files.items() if v_[0] == path]:
                    del ctx.files[k_]   # the failed write destroyed whatever document had that name
                fk = ctx.fs.fired[-1]["kind"]
                ctx.fired[fk] = ctx.fired.get(fk, 0) + 1
                if raised is None:
                    ctx.v("write fault swallowed by the producer", dict(key, fault=fk), {"path": path})
                    return "fault swallowed"
                outcome = "write raised " + type(raised).__name__
                after = canon(_full_sem(kind, obj))
                if after != before:
                    ctx.v("producing a document altered the object", dict(key, after_fault=True), {"before": before, "after": after})
                    return "object altered"
                # fault-free retry must give what a never-faulted write gives
                path = ctx.path("out_" + kind)
                obj.write_yaml(path)
                docs.append(ctx.fs.text(path))
                ref = obj.write_yaml()
                if docs[-1] != ref:
                    ctx.v("retry after a write fault gives a different document", key, {"retry": docs[-1][:300], "reference": ref[:300]})
                    return "retry differs"
                ctx.probe("retry_after_write_fault_identical")
                continue
            if raised is not None:
                raise raised
            docs.append(ctx.fs.text(path))
    after = canon(_full_sem(kind, obj))
    if after != before:
        ctx.v("producing a document altered the object", key, {"before": before, "after": after})
        return "object altered"
    if any(d != docs[0] for d in docs[1:]):
        ctx.v("repeated writes give different documents", key, {"first": docs[0][:400], "other": next(d for d in docs if d != docs[0])[:400]})
        return "writes differ"
    if not docs:
        return outcome
    # consumer stage
    ctx.docs += 1
    src = docs[0] if o["to"] == "string" else path
    try:
        back = _reread(ctx, kind, src)
    except BaseException as e:  # noqa
        ctx.v("document rejected by its reader", dict(key, exc=excname(e)),
              {"exc": repr(e)[:300], "document": docs[0][:600]})
        return "rejected"
    want = canon(_doc_sem(kind, obj))
    got = canon(_doc_sem(kind, back))
    if want != got:
        ctx.v("document read back describes a different design", key, {"written": want, "read": got, "document": docs[0][:600]})
        return "differs"
    if o["to"] == "file":
        ctx.files[kind] = (path, want)
        ctx.files_raw[kind] = sem.alloc_sem(back) if kind == "alloc" else _doc_sem(kind, obj)   # cells in file order
    if len(docs) > 1:
        ctx.probe("repeated_writes_identical")
    return outcome


def _do_restart(ctx):
    """All Python objects of the crashed node are gone; consumers reload from SimFS."""
    ctx.objs = {}
    ctx.fired["restart"] = ctx.fired.get("restart", 0) + 1
    order = [k for k in ("net", "die", "alloc") if k in ctx.files]
    for kind in order:
        path, want = ctx.files[kind]
        try:
            if kind == "die":
                obj = _m["D"].Die(path, ctx.objs.get("net"))
            elif kind == "net":
                obj = _m["N"].Netlist(path)
            else:
                obj = _m["A"].Allocation(path)
        except BaseException as e:  # noqa
            ctx.v("document rejected by its reader", {"producer": kind + ".write_yaml", "to": "file", "exc": excname(e),
                                                      "after": "restart"}, {"exc": repr(e)[:300]})
            continue
        got = canon(_doc_sem(kind, obj))
        if got != want:
            ctx.v("document read back describes a different design", {"producer": kind + ".write_yaml", "to": "file",
                                                                         "after": "restart"}, {"written": want, "read": got})
        ctx.objs[kind] = obj
        ctx.probe("restart_reloaded_" + kind)


# ------------------------------------------------------------------------------- netgen
def _expected_netgen(t, size, centers=None):
    def mn(i, j=-1):
        return "M%d" % i if j < 0 else "M%d_%d" % (i, j)
    if t == "grid":
        rows, cols = size
        names = [mn(r, c) for r in range(rows) for c in range(cols)]
        nets = [([mn(r, c), mn(r, c + 1)], 1.0) for r in range(rows) for c in range(cols - 1)] + \
               [([mn(r, c), mn(r + 1, c)], 1.0) for r in range(rows - 1) for c in range(cols)]
        return names, nets
    n = size[0]
    if t == "htree":
        names, nets = [], []

        def rec(level, w, first):
            c = first
            names.append(mn(c))
            if level == 1:
                return first + 1
            left, right = first + 1, first + 2
            names.extend([mn(left), mn(right)])
            nets.append(([mn(left), mn(c)], w))
            nets.append(([mn(right), mn(c)], w))
            i = first + 3
            subs = []
            for _ in range(4):
                subs.append(i)
                nets.append(([mn(c), mn(i)], w))
                i = rec(level - 1, 2 * w, i)
            nets.append(([mn(left), mn(subs[0])], w))
            nets.append(([mn(left), mn(subs[1])], w))
            nets.append(([mn(right), mn(subs[2])], w))
            nets.append(([mn(right), mn(subs[3])], w))
            return i
        rec(n, 1.0, 0)
        return names, nets
    names = [mn(i) for i in range(n)]
    if t == "chain":
        nets = [([mn(i), mn(i + 1)], 1.0) for i in range(n - 1)]
    elif t == "ring":
        nets = [([mn(i), mn((i + 1) % n)], 1.0) for i in range(n)]
    elif t == "star":
        nets = [([mn(0), mn(i)], 1.0) for i in range(1, n)]
    elif t == "ring-star":
        nets = [([mn(i), mn(i + 1)], 1.0) for i in range(1, n - 1)] + [([mn(n - 1), mn(1)], 1.0)] + \
               [([mn(0), mn(i)], 1.0) for i in range(1, n)]
    elif t == "one-net":
        nets = [([mn(i) for i in range(n)], 1.0)]
    else:
        raise ValueError(t)
    return names, nets


def _op_netgen(ctx, o):
    NG = _m["NG"]
    t, size = o["type"], o["size"]
    key = {"producer": "netgen", "type": t}
    path = ctx.path("netgen")
    args = ["-o", path, "--type", t, "--size"] + [str(s) for s in size]
    twin = None
    if o.get("centers"):
        die_arg = o["die"]
        if o.get("die_file"):
            # the die comes from a file an earlier stage left on the (simulated) disk
            W_, H_ = [float(x) for x in o["die"].split("x")]
            die_arg = ctx.path("die_for_netgen")
            ctx.fs.put(die_arg, _yaml_text({"width": W_, "height": H_}))
        args += ["--add-centers", "--die", die_arg]
        if "noise" in o:
            args += ["--add-noise"] + ([] if o["noise"] is None else [str(o["noise"])])
        if "nseed" in o:
            args += ["--seed", str(o["nseed"])]
    ctx.rnd = SimRandom(o.get("simseed", 99))
    twin = SimRandom(o.get("simseed", 99))
    NG.random = ctx.rnd
    fault = o.get("fault")
    nfired = len(ctx.fs.fired)
    if fault:
        _arm_fault(ctx, fault)
    raised = None
    try:
        NG.main("netgen", args)
    except OSError as e:
        raised = e
    except SystemExit as e:
        ctx.v("producer raised", dict(key, exc="SystemExit"), {"args": args, "exc": repr(e)})
        return "argparse exit"
    except Exception as e:
        ctx.v("producer raised", dict(key, exc=excname(e)), {"args": args, "exc": repr(e)[:300]})
        return "producer raised"
    fired_now = len(ctx.fs.fired) > nfired
    ctx.fs.plan = []
    if fired_now:
        fk = ctx.fs.fired[-1]["kind"]
        ctx.fired[fk] = ctx.fired.get(fk, 0) + 1
        if raised is None:
            ctx.v("write fault swallowed by the producer", dict(key, fault=fk), {"args": args})
            return "fault swallowed"
        return "write raised " + type(raised).__name__
    if raised is not None:
        raise raised
    ctx.docs += 1
    try:
        net = _m["N"].Netlist(path)
    except BaseException as e:  # noqa
        ctx.v("document rejected by its reader", dict(key, exc=excname(e)),
              {"args": args, "exc": repr(e)[:300], "document": (ctx.fs.text(path) or "")[:500]})
        return "rejected"
    names, nets = _expected_netgen(t, size)
    got = _unordered_net(sem.netlist_sem(net))
    exp_mods = []
    centers = {}
    if o.get("centers"):
        W, H = [float(x) for x in o["die"].split("x")]
        rows, cols = size
        sd = 0 if "noise" not in o else (0.1 if o["noise"] is None else o["noise"])
        if "nseed" in o:
            twin.seed(o["nseed"])
        else:
            twin.seed(None)
        xo, yo = W / cols, H / rows
        for r_ in range(rows):
            for c_ in range(cols):
                centers["M%d_%d" % (r_, c_)] = [(0.5 + c_) * xo, (0.5 + r_) * yo]
        noise_sd = sd
        if ctx.rnd.draws != 2 * rows * cols:
            ctx.probe("netgen_draw_count_differs_from_2_per_module")
        ctx.probe("netgen_with_centers")
    for n_ in names:
        exp_mods.append({"name": n_, "kind": "soft", "flip": False, "area": {"_": 1.0}, "center": centers.get(n_),
                         "aspect": None, "rects": []})
    exp = _unordered_net({"modules": exp_mods, "nets": [[m_, float(w_)] for m_, w_ in nets]})
    if o.get("centers"):
        # centres: on the grid position, displaced by the requested noise (the draw order is not prescribed: each
        # coordinate must lie within 8 standard deviations of its grid position, exactly on it when the deviation is 0)
        bad = None
        for gm, em in zip(got["modules"], exp["modules"]):
            gc, ec = gm.get("center"), em["center"]
            if gc is None or any(abs(a - b) > 8 * noise_sd + 1e-9 * max(W, H) for a, b in zip(gc, ec)):
                bad = (gm["name"], gc, ec)
                break
            gm["center"] = ec
        if bad:
            ctx.v("document read back describes a different design", dict(key, what="centres"),
                  {"module": bad[0], "read": bad[1], "grid_position": bad[2], "sd": noise_sd, "args": args})
            return "differs"
    if canon(exp) != canon(got):
        ctx.v("document read back describes a different design", key, {"expected": canon(exp), "read": canon(got), "args": args})
        return "differs"
    ctx.objs["net"] = net
    return "ok(%d modules, %d nets)" % (len(names), len(nets))


# ------------------------------------------------------------------------------- FloorSet
def _outline(boxes):
    """Boundary polygon (counter-clockwise vertex list, lattice ints) of a union of lattice boxes; None when the union has
    a pinch point or is not a single loop."""
    cells = set()
    for (x0, y0, x1, y1) in boxes:
        for x in range(x0, x1):
            for y in range(y0, y1):
                cells.add((x, y))
    nxt = {}
    for (x, y) in cells:
        edges = []
        if (x, y - 1) not in cells:
            edges.append(((x, y), (x + 1, y)))
        if (x + 1, y) not in cells:
            edges.append(((x + 1, y), (x + 1, y + 1)))
        if (x, y + 1) not in cells:
            edges.append(((x + 1, y + 1), (x, y + 1)))
        if (x - 1, y) not in cells:
            edges.append(((x, y + 1), (x, y)))
        for a, b in edges:
            if a in nxt:
                return None
            nxt[a] = b
    if not nxt:
        return None
    start = min(nxt)
    loop = [start]
    cur = nxt[start]
    while cur != start:
        loop.append(cur)
        cur = nxt.get(cur)
        if cur is None or len(loop) > len(nxt) + 1:
            return None
    if len(loop) != len(nxt):
        return None
    out = []
    n = len(loop)
    for i in range(n):
        a, b, c = loop[i - 1], loop[i], loop[(i + 1) % n]
        if (b[0] - a[0]) * (c[1] - b[1]) - (b[1] - a[1]) * (c[0] - b[0]) != 0:
            out.append(b)
    return out


def _op_floorset(ctx, o):
    np, FM = _m["np"], _m["FM"]
    inst = o["inst"]
    u = inst["unit"]
    key = {"producer": "floorset"}
    blocks = []
    for b in inst["blocks"]:
        poly = _outline([tuple(x) for x in b["boxes"]])
        if poly is None:
            poly = _outline([tuple(b["boxes"][0])])
            b = dict(b, boxes=[b["boxes"][0]])
        if b["cw"]:
            poly = poly[::-1]
        k = b["start"] % len(poly)
        poly = poly[k:] + poly[:k]
        if b["closed"]:
            poly = poly + [poly[0]]
        blocks.append((b, poly))
    nb = len(blocks)
    if nb == 0:
        return "skipped(no block)"
    maxv = max(len(p) for _, p in blocks) + 2
    vb = -np.ones((nb, maxv, 2), dtype=np.float64)
    area = np.zeros(nb, dtype=np.float64)
    pc = np.zeros((nb, 5), dtype=np.float64)
    for i, (b, poly) in enumerate(blocks):
        for j, (x, y) in enumerate(poly):
            vb[i, j, 0], vb[i, j, 1] = x * u, y * u
        area[i] = sum((x1 - x0) * (y1 - y0) for (x0, y0, x1, y1) in b["boxes"]) * u * u
        if b["kind"] == "fixed":
            pc[i, 1] = 1
        elif b["kind"] == "hard":
            pc[i, 0] = 1
    pins = np.array([[x * u, y * u] for x, y in inst["pins"]], dtype=np.float64)
    b2b = np.array([[i, j, w] for i, j, w in inst["b2b"] if i < nb and j < nb], dtype=np.float64).reshape(-1, 3)
    p2b = np.array([[p, i, w] for p, i, w in inst["p2b"] if i < nb], dtype=np.float64).reshape(-1, 3)
    data = {"area_blocks": area, "b2b_connectivity": b2b, "p2b_connectivity": p2b, "pins_pos": pins,
            "placement_constraints": pc, "vertex_blocks": vb, "metrics": np.array([nb, len(pins), 0.0, 0.0])}
    dens = o.get("density")
    if dens and float(b2b[:, 2].sum() if len(b2b) else 0) + float(p2b[:, 2].sum() if len(p2b) else 0) <= 0:
        dens = None  # the density rescaling divides by the largest connection weight: needs one positive weight
    try:
        fp = FM.FloorSetInstance(data, dens, o.get("tam", False))
    except Exception as e:
        ctx.v("producer raised", dict(key, exc=excname(e)), {"exc": repr(e)[:300], "inst": inst})
        return "producer raised"

    def obj_sem():
        return canon({"modules": fp.modules, "nets": [[list(e.modules), e.weight] for e in fp.nets], "shape": fp.shape})

    docs, ddocs = [], []
    pre_die = None
    if o.get("die_first"):
        # the die document is asked for before anything else has looked at the instance
        try:
            pre_die = fp.write_yaml_DIEF()
        except Exception as e:
            ctx.v("producer raised", dict(key, exc=excname(e), write="die first"), {"exc": repr(e)[:300]})
            return "producer raised"
    before = obj_sem()
    for i in range(o.get("times", 1)):
        try:
            die_first = False
            if o["to"] == "string":
                if die_first:
                    ddocs.append(fp.write_yaml_DIEF())
                docs.append(fp.write_yaml_FPEF())
                if not die_first:
                    ddocs.append(fp.write_yaml_DIEF())
            else:
                p1, p2 = ctx.path("FPEF"), ctx.path("DIEF")
                if die_first:
                    fp.write_yaml_DIEF(p2)
                fp.write_yaml_FPEF(p1)
                if not die_first:
                    fp.write_yaml_DIEF(p2)
                docs.append(ctx.fs.text(p1))
                ddocs.append(ctx.fs.text(p2))
        except Exception as e:
            ctx.v("producer raised", dict(key, exc=excname(e), write=i), {"exc": repr(e)[:300]})
            return "producer raised"
    if obj_sem() != before:
        ctx.v("producing a document altered the object", key, {"before": before, "after": obj_sem()})
        return "object altered"
    if pre_die is not None:
        ddocs.insert(0, pre_die)
    if any(d != docs[0] for d in docs[1:]) or any(d != ddocs[0] for d in ddocs[1:]):
        ctx.v("repeated writes give different documents", key, {"first": docs[0][-400:], "other": docs[-1][-400:]})
        return "writes differ"
    ctx.docs += 2
    try:
        net = _m["N"].Netlist(docs[0])
        die = _m["D"].Die(ddocs[0])
    except BaseException as e:  # noqa
        ctx.v("document rejected by its reader", dict(key, exc=excname(e)), {"exc": repr(e)[:300], "document": docs[0][:800]})
        return "rejected"
    # the document against the synthetic instance
    if (die.width, die.height) != (inst["W"] * u, inst["H"] * u):
        ctx.v("document read back describes a different design", dict(key, what="die"),
              {"read": [die.width, die.height], "expected": [inst["W"] * u, inst["H"] * u]})
        return "differs"
    alpha = 1.0
    got = sem.netlist_sem(net)
    problems = []
    if len(got["modules"]) != nb + len(inst["pins"]):
        problems.append("module count")
    byname = {m_["name"]: m_ for m_ in got["modules"]}
    for i, (b, poly) in enumerate(blocks):
        gm = byname.get("M%d" % i)
        if gm is None:
            problems.append("module %d missing" % i)
            continue
        if gm["kind"] != b["kind"]:
            problems.append("module %d name/kind %s/%s" % (i, gm["name"], gm["kind"]))
        # same union of lattice cells
        want_cells = {(x, y) for (x0, y0, x1, y1) in b["boxes"] for x in range(x0, x1) for y in range(y0, y1)}
        got_cells = set()
        tot = 0.0
        for (cx, cy, w, h, _reg) in gm["rects"]:
            x0, x1 = (cx - w / 2) / u, (cx + w / 2) / u
            y0, y1 = (cy - h / 2) / u, (cy + h / 2) / u
            tot += w * h
            for x in range(int(round(x0)), int(round(x1))):
                for y in range(int(round(y0)), int(round(y1))):
                    got_cells.add((x, y))
        if got_cells != want_cells or abs(tot - len(want_cells) * u * u) > 1e-9 * max(1.0, tot):
            problems.append("module %d shape" % i)
        if b["kind"] == "soft" and abs(sum(gm["area"].values()) - len(want_cells) * u * u) > 1e-9 * max(1.0, tot):
            problems.append("module %d area" % i)
    for j, (x, y) in enumerate(inst["pins"]):
        gm = byname.get("T%d" % j)
        if gm is None or gm["kind"] != "terminal" or gm["center"] != [x * u, y * u]:
            problems.append("terminal %d" % j)
    exp_nets = []
    raw = [("M%d" % int(i), "M%d" % int(j), w) for i, j, w in b2b.tolist()] + \
          [("T%d" % int(p), "M%d" % int(i), w) for p, i, w in p2b.tolist()]
    if dens:
        alpha = getattr(fp, "_alpha", 1.0)
    for a_, b_, w in raw:
        wei = float(w * alpha)
        exp_nets.append([[a_, b_], wei if wei > 0 else 1.0])
    if canon(sorted(([sorted(e[0]), e[1]] for e in exp_nets), key=repr)) != canon(sorted(([sorted(e[0]), e[1]] for e in got["nets"]), key=repr)):
        problems.append("nets")
    if problems:
        ctx.v("document read back describes a different design", dict(key, what=problems[0].split(" ")[0]),
              {"problems": problems, "read": canon(got), "expected_nets": exp_nets, "document": docs[0][:800]})
        return "differs"
    if any(len(b["boxes"]) > 1 for b, _ in blocks):
        ctx.probe("floorset_polygonal_block")
    if o.get("times", 1) > 1:
        ctx.probe("floorset_written_twice")
    return "ok"


# ------------------------------------------------------------------------------- rect
def _op_rect_alloc(ctx, o):
    RIO = _m["RIO"]
    if "alloc" not in ctx.files:
        return "skipped(no allocation file)"
    path, cells = ctx.files["alloc"]
    key = {"producer": "rect_io.get_netlist"}
    try:
        ifile = RIO.get_alloc(path)
    except BaseException as e:  # noqa
        ctx.v("document rejected by its reader", {"producer": "alloc.write_yaml", "consumer": "rect_io.get_alloc",
                                                  "exc": excname(e)}, {"exc": repr(e)[:300]})
        return "rejected"
    cells = [[c[0], c[1], c[2]] for c in ctx.files_raw["alloc"]]
    exp_rects = [{"b%d" % i: [{"dim": c[0][:4]}, {"mod": [{m: v} for m, v in c[1].items()]}]} for i, c in enumerate(cells)]
    bw = max(c[0][0] + c[0][2] / 2 for c in cells) - min(c[0][0] - c[0][2] / 2 for c in cells)
    bh = max(c[0][1] + c[0][3] / 2 for c in cells) - min(c[0][1] - c[0][3] / 2 for c in cells)

    class _BB:
        w, h = bw, bh
    bb = _BB
    if canon(_numnorm(ifile)) != canon(_numnorm({"Width": bb.w, "Height": bb.h, "Rectangles": exp_rects})):
        ctx.v("document read back describes a different design", {"producer": "alloc.write_yaml", "consumer": "rect_io.get_alloc"},
              {"read": canon(ifile)})
        return "differs"
    # the netlist rect builds from the allocation when none is given
    mods = {}
    for c in cells:
        (x, y, w, h, _r), al, _d = c
        for m, ratio in al.items():
            a = w * h * ratio
            sx, sy, sa = mods.get(m, (0.0, 0.0, 0.0))
            mods[m] = (sx + x * a, sy + y * a, sa + a)
    if any(sa <= 0 for _, _, sa in mods.values()) or any(v <= 0 for c in cells for v in c[1].values()):
        return "skipped(allocation with zero ratios: outside the stage's domain)"
    ctx.docs += 1
    try:
        net = RIO.get_netlist(None, path)
    except BaseException as e:  # noqa
        ctx.v("document rejected by its reader", dict(key, exc=excname(e)), {"exc": repr(e)[:300], "modules": canon(mods)})
        return "rejected"
    got = sem.netlist_sem(net)
    bad = None
    if [m["name"] for m in got["modules"]] != list(mods):
        bad = "module names/order"
    else:
        size = max(bb.w, bb.h)
        for gm in got["modules"]:
            sx, sy, sa = mods[gm["name"]]
            if gm["kind"] != "soft" or abs(sum(gm["area"].values()) - sa) > 1e-9 * sa:
                bad = "area of " + gm["name"]
            elif gm["center"] is None or abs(gm["center"][0] - sx / sa) > 1e-9 * size or abs(gm["center"][1] - sy / sa) > 1e-9 * size:
                bad = "centre of " + gm["name"]
    if got["nets"]:
        bad = "nets"
    if bad:
        ctx.v("document read back describes a different design", dict(key, what=bad.split(" ")[0]), {"problem": bad, "read": canon(got)})
        return "differs"
    # select_box: the per-module view of the grid
    for m in list(mods)[:2]:
        ip, sel = RIO.select_box(m, ifile)
        exp = [(c[0][0] - c[0][2] / 2, c[0][1] - c[0][3] / 2, c[0][0] + c[0][2] / 2, c[0][1] + c[0][3] / 2, c[1].get(m, 0.0)) for c in cells]
        if sel != m or canon(_numnorm(ip)) != canon(_numnorm(exp)):
            ctx.v("document read back describes a different design", {"producer": "alloc.write_yaml", "consumer": "rect_io.select_box"},
                  {"read": canon(ip)[:6], "expected": canon(exp)[:6]})
            return "differs"
    ctx.objs["rect_net"] = net
    return "ok"


def _op_rect_solution(ctx, o):
    RIO = _m["RIO"]
    alloc = ctx.objs.get("alloc")
    if alloc is None:
        return "skipped(no allocation)"
    r = Rng(o["seed"])
    bb = alloc.bounding_box
    W, H = bb.shape.w, bb.shape.h
    x0, y0 = bb.center.x - W / 2, bb.center.y - H / 2
    mods_in_alloc = []
    for a in alloc.allocations:
        for m in a.alloc:
            if m not in mods_in_alloc:
                mods_in_alloc.append(m)
    # the netlist handed to the normalisation stage: soft modules of the allocation + extra hard/fixed/terminal modules
    tree_mods = {}
    for m in mods_in_alloc:
        info = {"area": round(alloc.area(m), 6) if alloc.area(m) > 1e-6 else 1.0}
        c = alloc.center(m)
        info["center"] = [c.x, c.y]
        if r.chance(0.2):
            info["aspect_ratio"] = 0.5
        tree_mods[m] = info
    extra = []
    for i in range(o.get("extra", 0)):
        name = "X%d" % i
        k = r.choice(["hard", "fixed", "terminal", "soft_rect", "soft_region"])
        cx, cy = x0 + W * (0.1 + 0.8 * r.random()), y0 + H * (0.1 + 0.8 * r.random())
        rect = [cx, cy, W / 8, H / 8]
        if k == "hard":
            tree_mods[name] = {"hard": True, "rectangles": [rect]}
            if r.chance(0.3):
                tree_mods[name]["rectangles"].append([cx, cy + H / 8, W / 16, H / 8])
        elif k == "fixed":
            tree_mods[name] = {"fixed": True, "rectangles": [rect]}
        elif k == "terminal":
            tree_mods[name] = {"terminal": True, "center": [x0, cy]}
            if r.chance(0.4):
                tree_mods[name]["fixed"] = True   # a pinned terminal
        elif k == "soft_rect":
            tree_mods[name] = {"area": W * H / 64, "rectangles": [rect]}
        else:
            tree_mods[name] = {"area": {"dsp": 1.5, "LUT": 2.0}, "center": [cx, cy]}
        extra.append(name)
    names = list(tree_mods)
    nets = []
    for _ in range(o.get("nnets", 0)):
        if len(names) >= 2:
            k = min(len(names), r.weighted([(2, 5), (3, 2)]))
            e = r.sample(names, k)
            w = r.choice([1, 1, 2, 0.5, 3.5])
            nets.append(e + ([w] if w != 1 else []))
    tree = {"Modules": tree_mods, "Nets": nets}
    try:
        netlist = _m["N"].Netlist(tree)
    except BaseException as e:  # noqa
        return "skipped(generated netlist rejected: %s)" % excname(e)
    # synthesised k-box solutions for some soft modules of the allocation
    result = {}
    for m in mods_in_alloc:
        if r.chance(0.7):
            k = r.randint(1, 3)
            tw, th = W * (0.2 + 0.3 * r.random()), H * (0.2 + 0.3 * r.random())
            tx, ty = x0 + tw / 2 + (W - tw) * r.random() * 0.5, y0 + th / 2 + (H - th) * r.random() * 0.5
            boxes = [(tx, ty, tw, th)]
            if k >= 2:
                boxes.append((tx, ty + th / 2 + th / 8, tw / 2, th / 4))
            if k >= 3:
                boxes.append((tx + tw / 2 + tw / 8, ty, tw / 4, th / 2))
            result[m] = boxes
    key = {"producer": "rect_io.solution_to_netlist"}
    before = canon(sem.netlist_sem(netlist, roles=True, order_rects=True))
    docs = []
    for _ in range(o.get("times", 1)):
        try:
            docs.append(RIO.solution_to_netlist(netlist, result))
        except Exception as e:
            ctx.v("producer raised", dict(key, exc=excname(e)), {"exc": repr(e)[:300]})
            return "producer raised"
    if canon(sem.netlist_sem(netlist, roles=True, order_rects=True)) != before:
        ctx.v("producing a document altered the object", key, {})
        return "object altered"
    if any(d != docs[0] for d in docs[1:]):
        ctx.v("repeated writes give different documents", key, {})
        return "writes differ"
    ctx.docs += 1
    has = {"terminal": any(tree_mods[n].get("terminal") for n in extra), "weights": any(len(e) and not isinstance(e[-1], str) for e in nets)}
    try:
        back = _m["N"].Netlist(docs[0])
    except BaseException as e:  # noqa
        ctx.v("document rejected by its reader", dict(key, exc=excname(e), terminal=has["terminal"]),
              {"exc": repr(e)[:300], "document": docs[0][:900]})
        return "rejected"
    src = _unordered_net(sem.netlist_sem(netlist, per_region=False, flip=False, aspect=False))
    got = _unordered_net(sem.netlist_sem(back, per_region=False, flip=False, aspect=False))
    # expected: modules of the result get the boxes of the solution
    for m in src["modules"]:
        if m["name"] in result:
            m["rects"] = sorted(([b[0], b[1], b[2], b[3], "_"] for b in result[m["name"]]), key=repr)
    problem = None
    if [m["name"] for m in got["modules"]] != [m["name"] for m in src["modules"]]:
        problem = "modules"
    else:
        for a, b in zip(src["modules"], got["modules"]):
            if a["kind"] != b["kind"] or a.get("fixed_terminal") != b.get("fixed_terminal"):
                problem = "kind"
            elif canon(a["rects"]) != canon(b["rects"]):
                problem = "shapes"
            elif a["kind"] == "soft" and canon(a["area"]) != canon(b["area"]):
                problem = "area"
            elif not a["rects"] and canon(a["center"]) != canon(b["center"]):
                problem = "centre"
            if problem:
                break
    if problem is None:
        if [e[0] for e in src["nets"]] != [e[0] for e in got["nets"]]:
            problem = "nets"
        elif canon(src["nets"]) != canon(got["nets"]):
            problem = "weights"
    if problem:
        ctx.v("document read back describes a different design", dict(key, what=problem),
              {"written": canon(src), "read": canon(got), "document": docs[0][:900]})
        return "differs(%s)" % problem
    if has["weights"]:
        ctx.probe("rect_solution_with_weighted_nets")
    if has["terminal"]:
        ctx.probe("rect_solution_with_terminal")
    return "ok"


# ------------------------------------------------------------------------------- legaliser
def _op_legal(ctx, o):
    LF = _m["LF"]
    net, die = ctx.objs.get("net"), ctx.objs.get("die")
    if net is None or die is None:
        return "skipped(no netlist/die)"
    if any(m.num_rectangles == 0 or m.is_terminal for m in net.modules):
        return "skipped(outside the legaliser's domain)"
    key = {"producer": "legalfloor.Model.get_netlist"}
    before = canon(sem.netlist_sem(net, roles=True, order_rects=True))
    try:
        ml, al, xl, yl, wl, hl, hyper, og = LF.netlist_to_utils(net)
        model = LF.Model(ml, al, xl, yl, wl, hl, die.width, die.height, hyper, o.get("ratio", 2.0), og, 0.9, 0.3, 1)
    except Exception as e:
        ctx.v("producer raised", dict(key, exc=excname(e), stage="model"), {"exc": repr(e)[:300]})
        return "producer raised"
    solved = 0
    if o.get("solve"):
        # the legaliser's own loop: build, solve, re-read its own netlist, advance the annealing time
        try:
            for it in range(o["solve"]):
                model.set_fixed_t(it + 1)
                model.build_model(False, 1)
                model.solve(False, False, 1)
                solved += 1
                model.set_ml(LF.netlist_to_utils(model.get_netlist())[0])
                model.time_advance(1)
        except Exception as e:
            if solved == 0 and "get_netlist" not in repr(e):
                ctx.probe("legal_solve_failed_" + excname(e))
                return "skipped(solver failed: %s)" % excname(e)
            multi = any(m.is_hard and m.num_rectangles >= 2 for m in net.modules)
            ctx.v("document rejected by its reader", dict(key, exc=excname(e), after="solve", hard_multi_rect=multi),
                  {"exc": repr(e)[:300]})
            return "rejected"
        ctx.probe("legal_model_solved")
    ctx.docs += 1
    try:
        out = model.get_netlist()
        out2 = model.get_netlist()
    except BaseException as e:  # noqa
        ctx.v("document rejected by its reader", dict(key, exc=excname(e)), {"exc": repr(e)[:300]})
        return "rejected"
    if canon(sem.netlist_sem(net, roles=True, order_rects=True)) != before:
        ctx.v("producing a document altered the object", key, {})
        return "object altered"
    src = _unordered_net(sem.netlist_sem(net, per_region=False, flip=False, aspect=False, centers=False))
    if solved:
        # the design the solved model holds: rectangles as the model evaluates them now
        for md in src["modules"]:
            i = model.og_names.index(md["name"])
            M = model.M[i]
            md["rects"] = sorted(([float(M.x[j].evaluate()), float(M.y[j].evaluate()), float(M.w[j].evaluate()),
                                   float(M.h[j].evaluate()), "_"] for j in range(len(M.x))), key=repr)
    got = _unordered_net(sem.netlist_sem(out, per_region=False, flip=False, aspect=False, centers=False))
    got2 = _unordered_net(sem.netlist_sem(out2, per_region=False, flip=False, aspect=False, centers=False))
    if canon(got) != canon(got2):
        ctx.v("repeated writes give different documents", key, {})
        return "writes differ"
    problem = None
    if [m["name"] for m in got["modules"]] != [m["name"] for m in src["modules"]]:
        problem = "modules"
    else:
        for a, b in zip(src["modules"], got["modules"]):
            if a["kind"] != b["kind"]:
                problem = "kind"
            elif canon(a["rects"]) != canon(b["rects"]):
                problem = "shapes"
            elif a["kind"] == "soft" and canon(a["area"]) != canon(b["area"]):
                problem = "area"
            if problem:
                break
    if problem is None:
        if [e[0] for e in src["nets"]] != [e[0] for e in got["nets"]]:
            problem = "nets"
        elif canon(src["nets"]) != canon(got["nets"]):
            problem = "weights"
    if problem:
        ctx.v("document read back describes a different design", dict(key, what=problem), {"written": canon(src), "read": canon(got)})
        return "differs(%s)" % problem
    ctx.probe("legal_get_netlist_ok")
    return "ok"


# ------------------------------------------------------------------------------- driver
def run_case(case):
    case = _norm_desc(case)
    ctx = Ctx(case)
    U, NG = _m["U"], _m["NG"]
    U.open = ctx.fs.open
    NG.open = ctx.fs.open
    NG.random = ctx.rnd
    try:
        for seq, o in enumerate(case["ops"]):
            kind = o["op"]
            ctx.ops[kind] = ctx.ops.get(kind, 0) + 1
            try:
                out = _step(ctx, o)
            except AssertionError as e:
                if kind not in ("load_net", "load_die", "load_alloc"):
                    raise
                # whether an input design is accepted is C01/C05's subject, not C19's: stop here
                ctx.probe("input_rejected_" + kind)
                ctx.hist.append({"seq": seq, "op": kind, "out": "input rejected: " + str(e)[:80]})
                ctx.sig.append((kind, "", "", "input rejected", ""))
                break
            except SimCrash:
                out = "crashed"
                _do_restart(ctx)
            except Exception as e:
                out = "raised " + excname(e)
                if kind in ("split", "grid", "init_alloc", "refine", "uniform", "griddify", "load_net", "load_die", "load_alloc"):
                    # a library stage that refuses its input is the subject of other properties (C01, C03, C11, C02/C12);
                    # C19 judges producers and readers only
                    ctx.probe("stage_refused_input_" + kind)
                else:
                    ctx.v("stage raised", {"op": kind, "exc": excname(e)}, {"seq": seq, "exc": repr(e)[:400]})
            ctx.hist.append({"seq": seq, "op": kind, "obj": o.get("obj"), "to": o.get("to") or o.get("via"), "out": out})
            ctx.sig.append((kind, o.get("obj") or o.get("type") or "", o.get("to") or o.get("via") or "", out.split("(")[0],
                            (o.get("fault") or {}).get("kind", "")))
    finally:
        os.chdir("/")
        shutil.rmtree(ctx.scratch, ignore_errors=True)
    return {
        "violations": ctx.viol,
        "steps": len(ctx.hist),
        "faults_fired": ctx.fired,
        "faults_configured": ctx.configured,
        "probes": ctx.probes,
        "ops": ctx.ops,
        "signature": digest(ctx.sig),
        "nontrivial": ctx.docs >= 2,
        "digest": digest([ctx.hist, [(v["clause"], v["key"]) for v in ctx.viol], sorted(ctx.fs.files.items())]),
        "history": ctx.hist if case.get("want_history") else None,
        "sample": {"run": case.get("run"), "scenario": case.get("scenario"), "history": ctx.hist[:12]},
    }


def _step(ctx, o):
    kind = o["op"]
    if kind == "load_net":
        tree = designs.netlist_tree(o["net"], o["die"])
        if o.get("ints"):
            tree = _intify(tree)
        ctx.trees["net"] = tree
        ctx.objs["net"] = _load(ctx, "net", tree, o["via"])
        return "ok"
    if kind == "load_die":
        tree = designs.die_tree(o["die"])
        net = ctx.objs.get("net") if o.get("with_net") else None
        if not o.get("with_net"):
            ctx.trees.pop("net", None) if False else None
        ctx.trees["die"] = tree
        ctx.objs["die"] = _load(ctx, "die", tree, o["via"], net)
        ctx.die_has_net = net is not None
        return "ok"
    if kind == "load_alloc":
        tree = designs.alloc_tree(o["alloc"])
        ctx.objs["alloc"] = _load(ctx, "alloc", tree, o["via"])
        return "ok"
    if kind == "split":
        d = ctx.objs.get("die")
        if d is None:
            return "skipped(no object)"
        d.split_refinable_regions(o["r"], o["n"])
        return "ok"
    if kind == "grid":
        d = ctx.objs.get("die")
        if d is None:
            return "skipped(no object)"
        if d.fixed_regions or d.specialized_regions or d.blockages or len(d.ground_regions) != 1 or o["rows"] + o["cols"] < 2:
            return "skipped(not a clean die)"
        d.initial_grid(o["rows"], o["cols"])
        return "ok"
    if kind == "init_alloc":
        d = ctx.objs.get("die")
        if d is None or d.netlist is None:
            return "skipped(no die with netlist)"
        if any(m.is_terminal or (m.center is None and m.num_rectangles == 0) for m in d.netlist.modules):
            return "skipped(netlist outside create_initial_allocation's domain)"
        try:
            ctx.objs["alloc"] = _m["A"].create_initial_allocation(d, o.get("zero", False))
        except (AssertionError, ZeroDivisionError) as e:
            return "skipped(initial allocation refused: %s)" % excname(e)
        return "ok"
    if kind in ("refine", "uniform", "griddify"):
        a = ctx.objs.get("alloc")
        if a is None:
            return "skipped(no object)"
        if a.num_rectangles > 150:
            return "skipped(too many cells)"
        if kind == "refine":
            if a.num_rectangles * 2 ** o["levels"] > 400:
                return "skipped(too many cells)"
            ctx.objs["alloc"] = a.refine(o["t"], o["levels"])
        elif kind == "uniform":
            maxd = max(x.depth for x in a.allocations)
            if sum(2 ** (maxd - x.depth) for x in a.allocations) > 400:
                return "skipped(too many cells)"
            ctx.objs["alloc"] = a.uniform_refinement_depth()
        else:
            nxs = len({x.rect.center.x - x.rect.shape.w / 2 for x in a.allocations} | {x.rect.center.x + x.rect.shape.w / 2 for x in a.allocations})
            nys = len({x.rect.center.y - x.rect.shape.h / 2 for x in a.allocations} | {x.rect.center.y + x.rect.shape.h / 2 for x in a.allocations})
            if nxs * nys > 500:
                return "skipped(too many cells)"
            ctx.objs["alloc"] = a.griddify()
        return "ok"
    if kind == "write":
        return _op_write(ctx, o)
    if kind == "restart":
        _do_restart(ctx)
        return "ok"
    if kind == "netgen":
        return _op_netgen(ctx, o)
    if kind == "floorset":
        return _op_floorset(ctx, o)
    if kind == "rect_alloc":
        return _op_rect_alloc(ctx, o)
    if kind == "rect_solution":
        return _op_rect_solution(ctx, o)
    if kind == "legal":
        return _op_legal(ctx, o)
    if kind == "read_fault":
        # consumer-side fault: the error must propagate, no object may be returned
        files = sorted(ctx.fs.files)
        if not files:
            return "skipped(no file)"
        path = files[-1]
        k = o["kind"]
        ctx.configured[k] = ctx.configured.get(k, 0) + 1
        if k == "enoent":
            ctx.fs.plan.append({"kind": "enoent", "op": "open_r", "nth": ctx.fs.counts["open_r"] + 1})
        else:
            ctx.fs.plan.append({"kind": "eio_read", "nth": ctx.fs.counts["read"] + 1})
        reader = _m["N"].Netlist if "net" in path or "FPEF" in path or "netgen" in path else (
            _m["D"].Die if "die" in path or "DIEF" in path else _m["A"].Allocation)
        try:
            obj = reader(path)
        except OSError:
            ctx.fired[k] = ctx.fired.get(k, 0) + 1
            ctx.fs.plan = []
            return "read raised"
        except BaseException as e:  # noqa
            ctx.fs.plan = []
            return "read raised other: " + excname(e)
        ctx.fs.plan = []
        ctx.v("read fault swallowed by the reader", {"consumer": reader.__name__, "fault": k}, {"path": path, "obj": repr(obj)[:100]})
        return "fault swallowed"
    raise ValueError(kind)
