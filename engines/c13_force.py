"""C13 - force-directed relocation: deterministic; fixed modules stay; centres stay in the die.

The simulation dimension: the same instance is executed in several *worlds* that
differ only in what the simulator controls - a fresh child; a child that first ran
a seeded history of other FRAME work (process-wide state), with the global
`random` re-seeded and advanced and the garbage collector disabled; a child with
another history and a collection forced at every allocation threshold - and, by the
driver, fresh interpreters started under other PYTHONHASHSEED values.  All worlds
must return bit-identical centres and leave the global `random` state untouched.
"""
import gc
import math
import os
import random as _random
from copy import deepcopy

from sim import forkpool
from sim.digest import digest, canon
from sim.rng import Rng
from engines import designs, sem

STREAM = "c13"
RUN_TIMEOUT_S = 400.0
TIERS = {
    "quick": {"runs": 160, "wall_s": 240, "batch": 160, "det_same": 6, "det_fresh": 0, "world_fraction": 0.15},
    "thorough": {"runs": 4000, "wall_s": 2400, "batch": 500, "det_same": 16, "det_fresh": 0, "world_fraction": 0.1},
}
# fresh interpreters under other hash seeds: a mismatch of the *result* digest is a violation of C13 (determinism)
WORLD_HASHSEEDS = ["1", "4242"]
RULE = ("Each run is one (die, netlist) instance - 3-9 modules (soft, fixed, terminals; coincident centres, centres on the "
        "border, modules without centre), nets of arity 2-4 with weights, max_iter 1-60 - relocated by "
        "fruchterman_reingold_layout (one spring constant) and force_algorithm in three simulated worlds (fresh child; child "
        "with a seeded prior history of FRAME work, global random re-seeded and advanced, GC disabled; child with another "
        "history and GC forced), plus fresh interpreters under other PYTHONHASHSEED values for a sample. Non-trivial: all "
        "three worlds returned; distinct = BLAKE2 of (instance digest, max_iter, kappa).")
COMPONENTS = {
    "real": ["tools.force.fruchterman_reingold (fruchterman_reingold_layout, force_algorithm, total_intersection_area)",
             "frame.die.Die, frame.netlist.Netlist (wire_length)"],
    "stub": ["tools.draw.draw.get_floorplan_plot as seen by the force tool (the plotting device of --visualize; returns a token)"],
    "simulator": ["world construction (prior history, global random state, GC regime, hash seed)",
                  "reference arg-min over the twelve spring constants on deep copies"],
}
ASSUMPTIONS = [
    "fixed modules: rectangles bit-identical; centre within 1e-12 * die size (the layout re-centres the die to the origin "
    "and back, which may cost one rounding)",
    "the returned layout must be bit-identical to the harness's own fruchterman_reingold_layout run for the spring "
    "constant with the first strictly smallest library cost (total_intersection_area + wire_length / 2)",
    "an independent cost (own disc-overlap and wire-length formulas) must agree with the library cost within 1e-6 relative",
]


def gen_case(r, index, tier):
    W = r.choice([4, 6, 8, 10, 16, 24])
    H = max(2, int(round(W * r.choice([0.1, 0.25, 0.5, 1, 1, 2, 4, 8]))))   # from square to very elongated dies
    die = {"family": r.choice(["dyadic", "decimal"]), "scale_exp": r.weighted([(0, 5), (1, 2), (-3, 1), (-4, 1), (3, 1), (5, 0.5)]),
           "nx": W, "ny": H, "regions": []}
    hard_blocks = r.chance(0.35)
    nl = designs.gen_netlist(r, die, nmods=r.randint(3, 9) if r.chance(0.95) else r.randint(12, 24),
                             # movable hard blocks with rectangles in a third of the netlists (seeded change C13-18: relocation must move only centres)
                             kinds=["soft", "soft", "soft", "fixed", "terminal"] + (["hard", "hard"] if hard_blocks else []),
                             allow_terminals=True, need_centers=True, connected=r.chance(0.7), allow_regions=False)
    mods = nl["modules"]
    for m in mods:
        m.pop("boxes", None) if m["kind"] == "soft" else None
        m.pop("aspect", None)
        if m["kind"] == "terminal" and "center" not in m:
            m["center"] = (0, r.randint(0, 2 * H))
    # special placements
    cents = [m for m in mods if m["kind"] == "soft"]
    if len(cents) >= 2 and r.chance(0.3):
        cents[1]["center"] = cents[0]["center"]             # coincident centres
    if cents and r.chance(0.3):
        cents[-1]["center"] = (r.choice([0, 2 * W]), r.randint(0, 2 * H))   # on the border
    terms = [m for m in mods if m["kind"] == "terminal" and "center" in m]
    if terms and cents and r.chance(0.4):
        cents[0]["center"] = terms[0]["center"]             # a soft module placed on a (possibly fixed) terminal
    small = len(mods) <= 9
    max_iter = r.weighted([(1, 2), (2, 1), (3, 1), (5, 2), (20, 3), (60, 2)] + ([(100, 0.3), (101, 0.3), (125, 0.3), (160, 0.2)] if small else []))
    return {"engine": "c13", "die": die, "net": nl, "max_iter": max_iter,
            "kappa": r.choice([0.4, 0.7, 1.0, 1.5]), "hist_seed": r.below(1 << 30), "with_die_net": True,
            "squares": r.chance(0.3), "alias": r.chance(0.5), "peek": r.chance(0.4),
            # the tool's --visualize: frames are drawn by the (stubbed) plotting device while the layout runs
            "visualize": r.chance(0.5 if max_iter >= 100 else 0.2),
            # incremental flow: relocate, pin some terminals where they ended up, relocate again
            "pin": r.weighted([(0, 6), (1, 3), (2, 1)])}


def units(case):
    return len(case["net"]["modules"])


def restrict(case, keep):
    nl = case["net"]
    mods = [nl["modules"][i] for i in keep]
    names = {m["name"] for m in mods}
    nets = [dict(e, mods=[x for x in e["mods"] if x in names]) for e in nl["nets"]]
    nets = [e for e in nets if len(e["mods"]) >= 2]
    return dict(case, net=dict(nl, modules=mods, nets=nets))


def simplify(case):
    nl = case["net"]
    for j in range(len(nl["nets"])):
        yield dict(case, net=dict(nl, nets=nl["nets"][:j] + nl["nets"][j + 1:]))
    if case["max_iter"] > 1:
        yield dict(case, max_iter=max(1, case["max_iter"] // 2))


_m = {}


def setup():
    import tools.force.fruchterman_reingold as FR
    import frame.die.die as D
    import frame.netlist.netlist as N
    import frame.allocation.allocation as A
    import tools.rect.satmanager as SAT
    _m.update(FR=FR, D=D, N=N, A=A, SAT=SAT)


def _norm(nl):
    mods = []
    for m in nl["modules"]:
        m = dict(m)
        if "boxes" in m:
            m["boxes"] = [tuple(b) for b in m["boxes"]]
        if "center" in m:
            m["center"] = tuple(m["center"])
        mods.append(m)
    return dict(nl, modules=mods)


def _prior_history(seed):
    """Other FRAME work executed before the probed operation: other designs, layouts, encodings."""
    r = Rng(seed)
    N, D, A, SAT, FR = _m["N"], _m["D"], _m["A"], _m["SAT"], _m["FR"]
    for _ in range(r.randint(1, 3)):
        die = designs.gen_die(r, scale_exp=r.choice([0, 1, 2]))
        nl = designs.gen_netlist(r, die, allow_terminals=False)
        try:
            net = N.Netlist(designs.netlist_tree(nl, die))
            d = D.Die(designs.die_tree(die), net)
            if all(m.center is not None for m in net.modules) and not any(m.is_terminal and m.center is None for m in net.modules):
                if r.chance(0.5):
                    FR.fruchterman_reingold_layout(d, 1.0, False, None, 3)
                else:
                    # a whole relocation of another design whose modules carry the same names (M0, M1, ...) and other areas
                    FR.force_algorithm(d, False, None, 2)
        except (AssertionError, ZeroDivisionError):
            pass
    sm = SAT.SATManager()
    vs = [sm.newvar(str(i)) for i in range(4)]
    sm.heuleencoding(vs)
    sm.solve()


def _build(case):
    N, D = _m["N"], _m["D"]
    die = case["die"]
    tree = designs.netlist_tree(_norm(case["net"]), die)
    net = N.Netlist(tree)
    d = D.Die(designs.die_tree(die), net)
    if case.get("squares") and not any(m.is_terminal for m in net.modules):
        # what Allocation.initial_allocation does before the relocation stage is run on the same objects
        net.create_squares()
    if case.get("alias"):
        # coincident centres given as ONE Point object shared by several modules (module.center is a plain attribute)
        seen = {}
        for m in net.modules:
            if m.center is not None and not m.rectangles:
                k = (m.center.x, m.center.y)
                if k in seen:
                    m.center = seen[k]
                else:
                    seen[k] = m.center
    return d


def _centres(d):
    return [[m.name, None if m.center is None else [m.center.x, m.center.y]] for m in d.netlist.modules]


def _own_cost(d):
    """Independent cost: exact lens area of two discs + half the wire length (weight * sum of distances to the mean)."""
    mods = d.netlist.modules
    tot = 0.0
    for i, a in enumerate(mods):
        for j, b in enumerate(mods):
            if i == j:
                continue
            r1, r2 = math.sqrt(a.area() / math.pi), math.sqrt(b.area() / math.pi)
            dist = math.hypot(a.center.x - b.center.x, a.center.y - b.center.y)
            if dist >= r1 + r2:
                continue
            if dist <= abs(r1 - r2):
                tot += math.pi * min(r1, r2) ** 2
                continue
            a1 = math.acos(max(-1.0, min(1.0, (r1 * r1 + dist * dist - r2 * r2) / (2 * r1 * dist))))
            a2 = math.acos(max(-1.0, min(1.0, (r2 * r2 + dist * dist - r1 * r1) / (2 * r2 * dist))))
            tot += r1 * r1 * (a1 - math.sin(2 * a1) / 2) + r2 * r2 * (a2 - math.sin(2 * a2) / 2)
    wl = 0.0
    for e in d.netlist.edges:
        cx = sum(m.center.x for m in e.modules) / len(e.modules)
        cy = sum(m.center.y for m in e.modules) / len(e.modules)
        wl += e.weight * sum(math.hypot(m.center.x - cx, m.center.y - cy) for m in e.modules)
    return tot + wl / 2


def _world(arg):
    """One world: builds the instance, runs the two entry points, evaluates the per-run oracles."""
    case, world = arg
    FR = _m["FR"]
    viol = []
    rnd_state = None
    if world == "B":
        gc.disable()
        _prior_history(case["hist_seed"])
        _random.seed(case["hist_seed"])
        for _ in range(case["hist_seed"] % 17):
            _random.random()
    elif world == "C":
        gc.set_threshold(1, 1, 1)
        _prior_history(case["hist_seed"] + 1)
        _random.seed(99)
    rnd_state = _random.getstate()
    try:
        d0 = _build(case)
    except AssertionError as e:
        return {"skipped": "instance rejected: " + str(e)[:60]}
    if any(m.center is None for m in d0.netlist.modules):
        # modules without centre start at the die centre; wire_length needs centres afterwards - fine
        pass
    W, H = d0.width, d0.height
    if case.get("peek") and all(m.center is not None for m in d0.netlist.modules):
        # a caller that looks at the cost of the input placement before relocating it
        _ = d0.netlist.wire_length
        _ = FR.total_intersection_area(d0)
    before = sem.netlist_sem(d0.netlist, roles=True, order_rects=True, centers=False)
    before_c = _centres(d0)

    vis = None
    if case.get("visualize"):
        vis = "sim.gif"
        FR.get_floorplan_plot = lambda netlist, shape, *a, **kw: ("frame", netlist.num_modules)

    def check(d, label, before=before, before_c=before_c):
        after = sem.netlist_sem(d.netlist, roles=True, order_rects=True, centers=False)
        if canon(after) != canon(before):
            viol.append({"property": "C13", "clause": "something other than centres changed", "key": {"entry": label},
                         "detail": {"before": canon(before), "after": canon(after)}})
        for m, (name, c0) in zip(d.netlist.modules, before_c):
            c = m.center
            if c is None or not (math.isfinite(c.x) and math.isfinite(c.y)):
                viol.append({"property": "C13", "clause": "module centre is not a finite point", "key": {"entry": label},
                             "detail": {"module": name, "centre": None if c is None else [c.x, c.y]}})
                continue
            if not (0 <= c.x <= W and 0 <= c.y <= H):
                viol.append({"property": "C13", "clause": "module centre lies outside the die", "key": {"entry": label},
                             "detail": {"module": name, "centre": [c.x, c.y], "die": [W, H]}})
            if m.is_fixed and c0 is not None:
                if abs(c.x - c0[0]) > 1e-12 * max(W, H) or abs(c.y - c0[1]) > 1e-12 * max(W, H):
                    viol.append({"property": "C13", "clause": "fixed module moved", "key": {"entry": label},
                                 "detail": {"module": name, "before": c0, "after": [c.x, c.y]}})

    out = {}
    # entry 1: one layout with a given spring constant
    d1 = deepcopy(d0)
    r1, _ = FR.fruchterman_reingold_layout(d1, case["kappa"], False, vis, case["max_iter"])
    check(r1, "fruchterman_reingold_layout")
    out["layout"] = _centres(r1)
    # entry 2: force_algorithm
    d2 = deepcopy(d0)
    r2, _ = FR.force_algorithm(d2, False, vis, case["max_iter"])
    check(r2, "force_algorithm")
    out["force"] = _centres(r2)
    # phase 2: pin terminals where the first relocation left them, relocate the same objects again
    out["pinned"] = None
    terms = [m for m in r2.netlist.modules if m.is_terminal and not m.is_fixed and m.center is not None]
    if case.get("pin") and terms:
        for m in terms[:case["pin"]]:
            m.is_fixed = True
        b2 = sem.netlist_sem(r2.netlist, roles=True, order_rects=True, centers=False)
        c2 = _centres(r2)
        r3, _ = FR.fruchterman_reingold_layout(r2, case["kappa"], False, vis, min(case["max_iter"], 20))
        check(r3, "second relocation after pinning", b2, c2)
        r4, _ = FR.force_algorithm(deepcopy(r3), False, None, min(case["max_iter"], 5))
        check(r4, "second relocation after pinning", b2, _centres(r3))
        out["pinned"] = [_centres(r3), _centres(r4)]
    if world == "A":
        # reference arg-min over the twelve spring constants
        best, best_k, costs = float("inf"), None, []
        for kappa in [i / 10 for i in range(4, 16)]:
            dk = deepcopy(d0)
            rk, _ = FR.fruchterman_reingold_layout(dk, kappa, False, None, case["max_iter"])
            lib = FR.total_intersection_area(rk) + rk.netlist.wire_length / 2
            own = _own_cost(rk)
            costs.append((kappa, lib, own, _centres(rk)))
            if lib < best:
                best, best_k = lib, kappa
        for kappa, lib, own, _c in costs:
            if abs(lib - own) > 1e-6 * max(1.0, abs(own)):
                viol.append({"property": "C13", "clause": "library cost differs from overlap + half wire length",
                             "key": {"entry": "force_algorithm"}, "detail": {"kappa": kappa, "library": lib, "independent": own}})
                break
        want = next(c for k, lib, own, c in costs if k == best_k)
        if canon(want) != canon(out["force"]):
            viol.append({"property": "C13", "clause": "returned layout is not the one of the spring constant with the smallest cost",
                         "key": {"entry": "force_algorithm"},
                         "detail": {"best_kappa": best_k, "costs": [[k, lib] for k, lib, _o, _c in costs],
                                    "returned": out["force"], "expected": want}})
        out["best_kappa"] = best_k
    out["global_random_consumed"] = _random.getstate() != rnd_state   # observation; nondeterminism itself shows between worlds
    out["violations"] = viol
    return out


def run_case(case):
    viol, hist, probes = [], [], {}
    results = {}
    for w in ("A", "B", "C"):
        st, val = forkpool.run_in_child(_world, (case, w), timeout_s=300.0)
        if st != "ok":
            raise RuntimeError("world %s failed: %s" % (w, val))
        results[w] = val
    if "skipped" in results["A"]:
        hist.append({"out": results["A"]["skipped"]})
        return _result(case, viol, hist, probes, False, None)
    for w in ("A", "B", "C"):
        for v in results[w].get("violations", []):
            if not any(x["clause"] == v["clause"] for x in viol):
                viol.append(v)
    for w in ("B", "C"):
        if "skipped" in results[w]:
            # the instance was rejected while loading in this world only: the loading verdict depending on earlier designs
            # (process-wide rectangle tolerance) is C20's subject and a known finding there, not a statement about relocation
            probes["instance_rejected_while_loading_in_another_world"] = 1
            continue
        for entry in ("layout", "force", "pinned"):
            if canon(results[w].get(entry)) != canon(results["A"].get(entry)):
                viol.append({"property": "C13", "clause": "result differs between simulated worlds (not deterministic)",
                             "key": {"entry": entry},
                             "detail": {"world": w, "A": results["A"].get(entry), w: results[w].get(entry)}})
                break
    if any(results[w].get("global_random_consumed") for w in results):
        probes["global_random_state_consumed"] = 1
    hist.append({"worlds": 3, "best_kappa": results["A"].get("best_kappa"), "layout": digest(results["A"].get("layout")),
                 "force": digest(results["A"].get("force"))})
    mods = case["net"]["modules"]
    if any(m["kind"] == "fixed" for m in mods):
        probes["instance_with_fixed_module"] = 1
    cs = [tuple(m["center"]) for m in mods if "center" in m]
    if len(cs) != len(set(cs)):
        probes["coincident_centres"] = 1
    if any(m["kind"] == "terminal" for m in mods):
        probes["instance_with_terminal"] = 1
    if any(m["kind"] == "hard" and m.get("boxes") for m in mods):
        probes["instance_with_movable_hard_block_with_rectangles"] = 1
    if results["A"].get("pinned"):
        probes["relocated_again_after_pinning_a_terminal"] = 1
    if case.get("visualize"):
        probes["visualised_run"] = 1
        if case["max_iter"] >= 100:
            probes["visualised_run_with_100_or_more_iterations"] = 1
    wd = digest([results["A"].get("layout"), results["A"].get("force")])
    return _result(case, viol, hist, probes, True, wd)


def _result(case, viol, hist, probes, nontrivial, world_digest):
    return {"violations": viol, "steps": 3 * 14 if nontrivial else 0, "faults_fired": {}, "faults_configured": {},
            "probes": probes, "ops": {"layout_worlds": 3 if nontrivial else 0},
            "signature": digest([case["die"], case["net"], case["max_iter"], case["kappa"]]),
            "nontrivial": nontrivial, "world_digest": world_digest,
            "digest": digest([hist, [(v["clause"], v["key"]) for v in viol]]),
            "history": hist if case.get("want_history") else None,
            "sample": {"run": case.get("run"), "modules": len(case["net"]["modules"]), "nets": len(case["net"]["nets"]),
                       "max_iter": case["max_iter"], "history": hist[:4]}}
