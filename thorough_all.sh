#!/bin/sh
# Runs the thorough tier of the given checks once (default seed unless VERIF_SEED is set).
cd "$(dirname "$0")"
for p in ${1:-C02 C12 C07 C19 C20 C10 C13 C14}; do
  out=$(timeout 4000 /venv/bin/python sim/cli.py check "$p" --tier thorough 2>&1); rc=$?
  echo "$p rc=$rc $(echo "$out" | grep -v '^KNOWN' | tail -1 | cut -c1-200)"
  echo "$out" | grep "^runs=\|^violation\|^VIOLATION\|^HARNESS" | cut -c1-1200
done
